"""Independent MEI encoder (peer writer of C19 direction 1) for the supported
subset: one staffDef per (part, staff) with meter, key and clef given as
attributes or as child elements, layers (= voices) with notes, chords, rests,
measure rests, beams, tuplets, spaces, grace notes, ties as elements.
Returns the bytes and the exact list of what the document denotes."""
from fractions import Fraction as F
from xml.sax.saxutils import quoteattr

from model import gen

DUR = {F(4): "1", F(2): "2", F(1): "4", F(1, 2): "8", F(1, 4): "16", F(1, 8): "32", F(1, 16): "64"}
ACCID = {0: None, 1: "s", -1: "f", 2: "ss", -2: "ff"}


def sym_to_mei(sym):
    """abstract symbolic duration -> (dur, dots, (num, numbase) or None)"""
    typ = {"whole": "1", "half": "2", "quarter": "4", "eighth": "8", "16th": "16", "32nd": "32", "breve": "breve", "long": "long"}[sym["type"]]
    tup = (sym["actual_notes"], sym["normal_notes"]) if sym.get("actual_notes") else None
    return typ, sym.get("dots", 0) or 0, tup


def encode(asc, style):
    """style: dict(attr_defs=bool (meter/key/clef as attributes vs children), beams=bool, ppq=bool, mrest=bool)
    -> (bytes, expected) or (None, None) when the score is outside the subset"""
    staves = []
    for pi, p in enumerate(asc["parts"]):
        for st in sorted(set(n["staff"] for n in p["notes"])) or [1]:
            staves.append((pi, p, st))
    if not staves:
        return None, None
    p0 = asc["parts"][0]
    nmeas = len(p0["measures"])
    ids = [0]

    def nid(prefix):
        ids[0] += 1
        return "%s%d" % (prefix, ids[0])

    out = ['<?xml version="1.0" encoding="UTF-8"?>', '<mei xmlns="http://www.music-encoding.org/ns/mei" meiversion="4.0.0">', "<meiHead><fileDesc><titleStmt><title>t</title></titleStmt><pubStmt/></fileDesc></meiHead>", "<music><body><mdiv xml:id=\"mdiv1\"><score xml:id=\"score1\">"]
    ts0 = p0["timesigs"][0]
    if style["attr_defs"]:
        out.append('<scoreDef xml:id="sd1" meter.count="%d" meter.unit="%d">' % (ts0["beats"], ts0["beat_type"]))
    else:
        out.append('<scoreDef xml:id="sd1">')
    out.append('<staffGrp xml:id="sg1">')
    expected = []
    common_ppq = 1
    for pp in asc["parts"]:
        a, b = common_ppq, pp["qdivs"][0][1]
        while b:
            a, b = b, a % b
        common_ppq = common_ppq * pp["qdivs"][0][1] // a
    durppq = bool(style.get("durppq"))

    def dppq(d_q):
        # explicit duration in pulses, as notation software writes it next to @dur
        return ' dur.ppq="%d"' % int(d_q * common_ppq) if durppq else ""

    for k, (pi, p, st) in enumerate(staves):
        n = k + 1
        clef = next((c for c in p["clefs"] if c["staff"] == st and c["t"] == 0), {"sign": "G", "line": 2})
        ks = p["keysigs"][0] if p["keysigs"] else {"fifths": 0}
        f = ks["fifths"]
        sig = "0" if f == 0 else ("%ds" % f if f > 0 else "%df" % -f)
        ppq_attr = ""
        if style["ppq"]:
            # one common ppq for the document (what notation software writes)
            common = 1
            for pp in asc["parts"]:
                a, b = common, pp["qdivs"][0][1]
                while b:
                    a, b = b, a % b
                common = common * pp["qdivs"][0][1] // a
            ppq_attr = ' ppq="%d"' % common
        sd_id = nid("stdef")
        if style["attr_defs"]:
            out.append('<staffDef xml:id="%s" n="%d" lines="5"%s clef.shape="%s" clef.line="%d" key.sig="%s"/>' % (sd_id, n, ppq_attr, clef["sign"], clef["line"], sig))
        else:
            out.append('<staffDef xml:id="%s" n="%d" lines="5"%s><clef xml:id="%s" shape="%s" line="%d"/><keySig xml:id="%s" sig="%s"/><meterSig xml:id="%s" count="%d" unit="%d"/></staffDef>' % (sd_id, n, ppq_attr, nid("clef"), clef["sign"], clef["line"], nid("ks"), sig, nid("ms"), ts0["beats"], ts0["beat_type"]))
        expected.append({"part": pi, "staff": st, "n": n, "def_id": sd_id, "notes": [], "voices": {}, "measures": [gen.quarter_pos(p, m["s"]) for m in p["measures"]], "meter": (ts0["beats"], ts0["beat_type"]), "timesigs": [(gen.quarter_pos(p, t["t"]), t["beats"], t["beat_type"]) for t in p["timesigs"]], "key": f, "clef": (clef["sign"], clef["line"])})
    out.append("</staffGrp></scoreDef>")
    out.append('<section xml:id="sec1">')
    xmlid = {}
    key_changed = [False]
    ties = []
    for m in range(nmeas):
        chg = next((t for t in p0["timesigs"] if t["t"] == p0["measures"][m]["s"] and m > 0), None)
        if chg is not None:
            # a meter change at a barline: a scoreDef between the measures, meter as attributes or as a child;
            # the same scoreDef may change the key (of all staves) as well
            keyattr, keychild = "", ""
            if style.get("keychg") and not key_changed[0]:
                key_changed[0] = True
                nf = style["keychg"]
                nsig = "0" if nf == 0 else ("%ds" % nf if nf > 0 else "%df" % -nf)
                keyattr = ' key.sig="%s"' % nsig
                keychild = '<keySig xml:id="%s" sig="%s"/>' % (nid("ks"), nsig)
                qk = gen.quarter_pos(p0, chg["t"])
                for e_ in expected:
                    e_["keys"] = [(F(0), e_["key"]), (qk, nf)]
            if style["attr_defs"]:
                out.append('<scoreDef xml:id="%s" meter.count="%d" meter.unit="%d"%s/>' % (nid("sd"), chg["beats"], chg["beat_type"], keyattr))
            else:
                out.append('<scoreDef xml:id="%s"><meterSig xml:id="%s" count="%d" unit="%d"/>%s</scoreDef>' % (nid("sd"), nid("ms"), chg["beats"], chg["beat_type"], keychild))
        out.append('<measure xml:id="%s" n="%d">' % (nid("m"), m + 1))
        mties = []
        for k, (pi, p, st) in enumerate(staves):
            ms = p["measures"][m]
            mstart_q = gen.quarter_pos(p, ms["s"])
            mlen_q = gen.quarter_pos(p, ms["e"]) - mstart_q
            out.append('<staff xml:id="%s" n="%d">' % (nid("st"), k + 1))
            voices = sorted(set(n["voice"] for n in p["notes"] if n["staff"] == st))
            for li, v in enumerate(voices):
                notes = [n for n in p["notes"] if n["staff"] == st and n["voice"] == v and n["m"] == m]
                if not notes:
                    if li == 0 and style["mrest"]:
                        out.append('<layer xml:id="%s" n="%d"><mRest xml:id="%s"/></layer>' % (nid("l"), li + 1, nid("mr")))
                    continue
                out.append('<layer xml:id="%s" n="%d">' % (nid("l"), li + 1))
                by_onset = {}
                for n in notes:
                    by_onset.setdefault(n["t"], []).append(n)
                pos = ms["s"]
                open_tuplet = None
                for t in sorted(by_onset):
                    group = by_onset[t]
                    if t > pos:
                        return None, None  # gaps inside a layer: outside the generated subset
                    q = gen.quarter_pos(p, t)
                    graces = [n for n in group if n["kind"] == "grace"]
                    mains = [n for n in group if n["kind"] != "grace"]
                    for g in graces:
                        gid = nid("g")
                        xmlid[(pi, g["id"])] = gid
                        acc = ACCID[g["alter"] or 0]
                        out.append('<note xml:id="%s" grace="acc" dur="8"%s pname="%s" oct="%d"%s/>' % (gid, dppq(F(1, 2)), g["step"].lower(), g["octave"], ' accid="%s"' % acc if acc else ""))
                        expected[k]["notes"].append((q, F(0), g["step"], g["alter"] or 0, g["octave"], True, li + 1))
                    if not mains:
                        continue
                    ends = set(n["e"] for n in mains)
                    if len(ends) > 1:
                        return None, None  # unequal chord in one layer: outside the subset
                    sym = mains[0]["sym"]
                    if sym is None:
                        return None, None
                    dur, dots, tup = sym_to_mei(sym)
                    d_q = gen.quarter_pos(p, mains[0]["e"]) - q
                    gkey = mains[0].get("g")
                    if tup and gkey is not None:
                        if open_tuplet != tuple(gkey):
                            if open_tuplet is not None:
                                out.append("</tuplet>")
                            out.append('<tuplet xml:id="%s" num="%d" numbase="%d">' % (nid("tup"), tup[0], tup[1]))
                            open_tuplet = tuple(gkey)
                    elif open_tuplet is not None:
                        out.append("</tuplet>")
                        open_tuplet = None
                    dattr = ' dur="%s"%s%s' % (dur, ' dots="%d"' % dots if dots else "", dppq(d_q))
                    pitched = [n for n in mains if n["kind"] == "note"]
                    if not pitched:
                        out.append('<rest xml:id="%s"%s/>' % (nid("r"), dattr))
                    elif len(pitched) == 1:
                        n = pitched[0]
                        x = nid("n")
                        xmlid[(pi, n["id"])] = x
                        acc = ACCID[n["alter"] or 0]
                        if acc is None and style.get("naturals") and ids[0] % 2 == 0:
                            acc = "n"  # an explicit natural sign
                        out.append('<note xml:id="%s"%s pname="%s" oct="%d"%s/>' % (x, dattr, n["step"].lower(), n["octave"], ' accid="%s"' % acc if acc else ""))
                        expected[k]["notes"].append((q, d_q, n["step"], n["alter"] or 0, n["octave"], False, li + 1))
                    else:
                        out.append('<chord xml:id="%s"%s>' % (nid("c"), dattr))
                        for n in pitched:
                            x = nid("n")
                            xmlid[(pi, n["id"])] = x
                            acc = ACCID[n["alter"] or 0]
                            if acc is None and style.get("naturals") and ids[0] % 3 == 0:
                                acc = "n"
                            out.append('<note xml:id="%s" pname="%s" oct="%d"%s/>' % (x, n["step"].lower(), n["octave"], ' accid="%s"' % acc if acc else ""))
                            expected[k]["notes"].append((q, d_q, n["step"], n["alter"] or 0, n["octave"], False, li + 1))
                        out.append("</chord>")
                    pos = mains[0]["e"]
                if open_tuplet is not None:
                    out.append("</tuplet>")
                if pos < ms["e"]:
                    return None, None
                out.append("</layer>")
            out.append("</staff>")
        # ties that start in this measure
        for k, (pi, p, st) in enumerate(staves):
            for n in p["notes"]:
                if n["m"] == m and n.get("tie_next") and n["staff"] == st:
                    ties.append((pi, n["id"], n["tie_next"]))
                    mties.append((pi, n["id"], n["tie_next"]))
        out.append("@@TIES%d@@" % m)
        out.append("</measure>")
    out.append("</section></score></mdiv></body></music></mei>")
    text = "\n".join(out)
    # ties as elements (ids are known only now)
    per_measure = {}
    for pi, a, b in ties:
        pa = next(n for n in asc["parts"][pi]["notes"] if n["id"] == a)
        if (pi, a) in xmlid and (pi, b) in xmlid:
            per_measure.setdefault(pa["m"], []).append('<tie xml:id="%s" startid="#%s" endid="#%s"/>' % (nid("tie"), xmlid[(pi, a)], xmlid[(pi, b)]))
    for m in range(nmeas):
        text = text.replace("@@TIES%d@@" % m, "\n".join(per_measure.get(m, [])))
    # expected tie-joined notes per staff
    for k, (pi, p, st) in enumerate(staves):
        byid = {n["id"]: n for n in p["notes"]}
        joined = []
        for n in p["notes"]:
            if n["staff"] != st or n["kind"] != "note" or n.get("tie_prev") and (pi, n["tie_prev"]) in xmlid and (pi, n["id"]) in xmlid:
                continue
            if (pi, n["id"]) not in xmlid:
                continue
            e = n["e"]
            x = n
            while x.get("tie_next") and (pi, x["tie_next"]) in xmlid:
                x = byid[x["tie_next"]]
                e = x["e"]
            joined.append((gen.quarter_pos(p, n["t"]), gen.quarter_pos(p, e) - gen.quarter_pos(p, n["t"]), n["step"], n["alter"] or 0, n["octave"]))
        expected[k]["joined"] = sorted(joined, key=repr)
    return text.encode("utf-8"), {"staves": expected}
