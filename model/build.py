"""Abstract score (model/gen.py) -> partitura.score.Score, through the public
API only (constructors, Part.add, Part.set_quarter_duration, attribute
assignment as the importers do)."""


def late_order(qdivs):
    """order in which the later quarter-duration changes are declared after the first one: latest first where that is
    possible.  A declaration whose value equals the value in force at its time at that moment would not be a change
    (the library does not record it), so such orders are not used: fall back towards time order."""
    rest = [tuple(x) for x in qdivs[1:]]

    def ok(order):
        table = {qdivs[0][0]: qdivs[0][1]}
        for t, q in order:
            before = [k for k in table if k <= t]
            if before and table[max(before)] == q:
                return False
            table[t] = q
        return True

    cands = [list(reversed(rest))]
    for i in range(len(rest) - 1):
        c = list(rest)
        c[i], c[i + 1] = c[i + 1], c[i]
        cands.append(c)
    cands.append(rest)
    for c in cands:
        if ok(c):
            return c
    return rest


def build_part(ap, with_pages=False, late_structure=False, late_divs=False):
    """late_structure: add notes first, query the part (note array, time maps) as a user inspecting a half-built
    part would, and only then add measures and time signatures - the finished part must not remember the queries"""
    import partitura.score as S
    from partitura.io.importmusicxml import DYN_DIRECTIONS
    from partitura.directions import parse_direction

    part = S.Part(ap["id"], part_name=ap.get("name"), part_abbreviation=ap.get("abbr"))
    # late_divs: only the first quarter duration is declared up front; the later changes are declared after the
    # objects have been added, latest first (every declaration then lies before an already declared change) -
    # the finished part must be the same
    for t, q in (ap["qdivs"][:1] if late_divs else ap["qdivs"]):
        part.set_quarter_duration(t, q)
    if with_pages:
        part.add(S.Page(1), 0)
        part.add(S.System(1), 0)
    def add_structure():
        for m in ap["measures"]:
            part.add(S.Measure(number=m["number"], name=m.get("name")), m["s"], m["e"])
        for ts in ap["timesigs"]:
            part.add(S.TimeSignature(ts["beats"], ts["beat_type"]), ts["t"])

    if not late_structure:
        add_structure()
    for ks in ap["keysigs"]:
        part.add(S.KeySignature(ks["fifths"], ks["mode"]), ks["t"])
    for c in ap["clefs"]:
        part.add(S.Clef(c["staff"], c["sign"], c["line"], c["oct"] or None), c["t"])
    objs = {}
    for n in ap["notes"]:
        sym = dict(n["sym"]) if n.get("sym") else None
        if sym is not None and not sym.get("dots"):
            sym.pop("dots", None)
        kw = dict(id=n["id"], voice=n["voice"], staff=n["staff"], symbolic_duration=sym)
        if n.get("art"):
            kw["articulations"] = list(n["art"])
        if n.get("stem"):
            kw["stem_direction"] = n["stem"]
        if n.get("finger"):
            kw["technical"] = [S.Fingering(fingering=n["finger"])]
        k = n["kind"]
        if k == "note":
            o = S.Note(n["step"], n["octave"], n["alter"], **kw)
        elif k == "grace":
            o = S.GraceNote(n.get("grace_type", "grace"), n["step"], n["octave"], n["alter"], **kw)
        elif k == "unpitched":
            o = S.UnpitchedNote(n["step"], n["octave"], **kw)
        else:
            o = S.Rest(**kw)
        part.add(o, n["t"], n["e"])
        objs[n["id"]] = o
        if n.get("fermata"):
            f = S.Fermata(o)
            part.add(f, n["t"])
            o.fermata = f
    for n in ap["notes"]:
        o = objs[n["id"]]
        if n.get("tie_next"):
            x = objs[n["tie_next"]]
            o.tie_next = x
            x.tie_prev = o
        if n.get("grace_next"):
            x = objs[n["grace_next"]]
            o.grace_next = x
            if isinstance(x, S.GraceNote):
                x.grace_prev = o
    if late_structure:
        # make sure the barline positions already exist as time points, so that adding the structure later
        # does not change the set of time points
        for m in ap["measures"]:
            part.get_or_add_point(m["s"])
            part.get_or_add_point(m["e"])
        import warnings

        with warnings.catch_warnings():
            warnings.simplefilter("ignore")
            for q in (lambda: part.note_array(), lambda: part.quarter_map(0), lambda: part.beat_map(0), lambda: part.time_signature_map(0), lambda: part.number_of_staves):
                try:
                    q()
                except Exception:
                    pass
        add_structure()
    if late_divs:
        for t, q in late_order(ap["qdivs"]):
            part.set_quarter_duration(t, q)
    for sl in ap.get("slurs", []):
        a, b = objs[sl["start"]], objs[sl["end"]]
        slur = S.Slur(a, b)
        part.add(slur, a.start.t, b.end.t)
    for tp in ap.get("tuplets", []):
        a, b = objs[tp["start"]], objs[tp["end"]]
        tup = S.Tuplet(a, b, actual_notes=tp["actual"], normal_notes=tp["normal"], actual_type=tp["type"], normal_type=tp["type"])
        part.add(tup, a.start.t, b.end.t)
    for d in ap.get("dirs", []):
        if d["kind"] == "dyn":
            o = DYN_DIRECTIONS[d["text"]](d["text"], staff=d.get("staff"))
            part.add(o, d["t"])
        elif d["kind"] == "wedge":
            cls = S.IncreasingLoudnessDirection if d["text"] == "crescendo" else S.DecreasingLoudnessDirection
            o = cls(d["text"], wedge=True, staff=d.get("staff"))
            part.add(o, d["t"], d["e"])
        elif d.get("cls"):
            o = getattr(S, d["cls"])(d["text"], staff=d.get("staff"))
            part.add(o, d["t"])
        else:
            for o in parse_direction(d["text"]):
                if isinstance(o, S.Tempo):
                    continue
                o.staff = d.get("staff")
                part.add(o, d["t"])
    for tm in ap.get("tempos", []):
        part.add(S.Tempo(tm["bpm"], tm.get("unit")), tm["t"])
    for r in ap.get("repeats", []):
        part.add(S.Repeat(), r["s"], r["e"])
    for e in ap.get("endings", []):
        part.add(S.Ending(e["number"]), e["s"], e["e"])
    for nv in ap.get("nav", []):
        part.add(getattr(S, nv["cls"])(), nv["t"])
    for f in ap.get("fermatas", []):
        part.add(S.Fermata(f.get("ref")), f["t"])
    return part


def build_score(asc, with_pages=False, set_ends=False, late_structure=False, late_divs=False):
    import partitura.score as S

    parts = [build_part(ap, with_pages, late_structure, late_divs) for ap in asc["parts"]]
    if set_ends:
        for p in parts:
            S.set_end_times(p)
    structure = parts
    if asc.get("groups"):

        def mk(g):
            pg = S.PartGroup(g.get("symbol"), g.get("name"), g.get("number"))
            for c in g["children"]:
                ch = parts[c] if isinstance(c, int) else mk(c)
                ch.parent = pg
                pg.children.append(ch)
            return pg

        structure = []
        used = set()

        def collect(g):
            for c in g["children"]:
                if isinstance(c, int):
                    used.add(c)
                else:
                    collect(c)

        groups = [mk(g) for g in asc["groups"]]
        for g in asc["groups"]:
            collect(g)
        # groups first cover a contiguous prefix/suffix of parts in order; keep document order
        first = {}
        for gi, g in enumerate(asc["groups"]):
            idxs = []

            def ids(x):
                for c in x["children"]:
                    if isinstance(c, int):
                        idxs.append(c)
                    else:
                        ids(c)

            ids(g)
            first[min(idxs)] = groups[gi]
        for i, p in enumerate(parts):
            if i in first:
                structure.append(first[i])
            elif i not in used:
                structure.append(p)
    return S.Score(structure, id=asc.get("id"))
