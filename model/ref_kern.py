"""Independent Humdrum **kern encoder (peer writer of C19 direction 1) for the
supported subset: one spine per (part, staff) holding one voice, chords, dotted
and tuplet reciprocal durations, ties, grace notes, barlines, tandem
interpretations for staff, clef, key signature and meter.  Returns the text and
the exact list of what it denotes."""
from fractions import Fraction as F

from model import gen

KEY_ORDER_SHARP = ["f#", "c#", "g#", "d#", "a#", "e#", "b#"]
KEY_ORDER_FLAT = ["b-", "e-", "a-", "d-", "g-", "c-", "f-"]


def recip(dur_q):
    """quarters -> kern reciprocal token (with dots), or None if not expressible"""
    for dots in (0, 1, 2):
        mult = F(2 ** (dots + 1) - 1, 2**dots)
        base = dur_q / mult  # undotted value in quarters
        r = F(4) / base  # reciprocal of a whole note
        if r.denominator == 1 and r >= 1:
            return str(r.numerator) + "." * dots
        if r in (F(1, 2), F(1, 4)):
            # breve and long: "0" and "00"
            return ("0" if r == F(1, 2) else "00") + "." * dots
    return None


def pitch_token(step, alter, octave):
    if octave >= 4:
        p = step.lower() * (octave - 3)
    else:
        p = step.upper() * (4 - octave)
    a = alter or 0
    return p + ("#" * a if a > 0 else "-" * (-a))


def _voice_events(p, vnotes, measure):
    """events {onset_q: [("main", token)]} of one voice inside one measure, gaps filled with rests; None if the voice
    cannot be written in one sub-spine (ties, unequal chords, inexpressible values)"""
    if any(n.get("tie_next") or n.get("tie_prev") for n in vnotes):
        return None, None
    by_onset = {}
    for n in vnotes:
        by_onset.setdefault(n["t"], []).append(n)
    events, exp = {}, []
    pos = measure["s"]

    def fill(a, b):
        a, b = gen.quarter_pos(p, a), gen.quarter_pos(p, b)
        while a < b:
            for d in (F(4), F(3), F(2), F(3, 2), F(1), F(3, 4), F(1, 2), F(3, 8), F(1, 4), F(1, 8), F(1, 16)):
                if a + d <= b and recip(d) is not None:
                    events[a] = [("main", recip(d) + "r")]
                    a += d
                    break
            else:
                return False
        return True

    for t in sorted(by_onset):
        group = by_onset[t]
        if t < pos or len(set(n["e"] for n in group)) > 1 or group[0]["e"] > measure["e"]:
            return None, None
        if t > pos and not fill(pos, t):
            return None, None
        q = gen.quarter_pos(p, t)
        d = gen.quarter_pos(p, group[0]["e"]) - q
        r = recip(d)
        if r is None:
            return None, None
        pitched = [n for n in group if n["kind"] == "note"]
        if pitched:
            events[q] = [("main", " ".join(r + pitch_token(n["step"], n["alter"], n["octave"]) for n in pitched))]
            exp.extend((q, d, n["step"], n["alter"] or 0, n["octave"], False, False, False) for n in pitched)
        else:
            events[q] = [("main", r + "r")]
        pos = group[0]["e"]
    if pos < measure["e"] and not fill(pos, measure["e"]):
        return None, None
    if not exp:
        return None, None
    return events, exp


def encode(asc, same_part=False, split=None, extra_voices=False):
    """-> (text, expected) ; expected = {"spines": [ {part, staff, notes:[(onset_q, dur_q, step, alter, octave, grace)], "measures":[q], "timesigs":[(q,b,t)], "key": fifths, "clef": (sign, line)} ]}
    Spines are written right-to-left as in Humdrum practice (lowest staff first)."""
    spines = []
    for pi, p in enumerate(asc["parts"]):
        staves = sorted(set(n["staff"] for n in p["notes"])) or [1]
        for st in staves:
            voices = sorted(set(n["voice"] for n in p["notes"] if n["staff"] == st))
            if not voices:
                continue
            v = voices[0]
            notes = [n for n in p["notes"] if n["staff"] == st and n["voice"] == v]
            spines.append((pi, p, st, v, notes))
            if extra_voices and same_part and len(voices) > 1 and not split:
                # the second voice of the staff as a spine of its own (same *staff, same *part)
                v2 = voices[1]
                spines.append((pi, p, st, v2, [n for n in p["notes"] if n["staff"] == st and n["voice"] == v2]))
    if not spines:
        return None, None
    # rows: union of event onsets (in quarters) of all spines + barlines
    p0 = asc["parts"][0]
    bars = [(gen.quarter_pos(p0, m["s"]), i + 1) for i, m in enumerate(p0["measures"])]
    end_q = gen.quarter_pos(p0, p0["measures"][-1]["e"])
    cols = []
    expected = []
    for pi, p, st, v, notes in spines:
        byid = {n["id"]: n for n in p["notes"]}
        events = {}  # onset_q -> list of tokens (graces first) / chord
        exp_notes = []
        by_onset = {}
        for n in notes:
            by_onset.setdefault(n["t"], []).append(n)
        ok = True
        for t in sorted(by_onset):
            group = by_onset[t]
            q = gen.quarter_pos(p, t)
            graces = [n for n in group if n["kind"] == "grace"]
            mains = [n for n in group if n["kind"] != "grace"]
            toks = []
            for g in graces:
                toks.append(("grace", pitch_token(g["step"], g["alter"], g["octave"]) + "q"))
                exp_notes.append((q, F(0), g["step"], g["alter"] or 0, g["octave"], True, False, False))
            if mains:
                d = gen.quarter_pos(p, mains[0]["e"]) - q
                if any(gen.quarter_pos(p, m["e"]) - q != d for m in mains):
                    # unequal chord: not expressible in one spine; keep the first member only
                    mains = mains[:1]
                r = recip(d)
                if r is None:
                    ok = False
                    break
                parts = []
                for m in mains:
                    if m["kind"] == "rest":
                        parts.append(r + "r")
                        continue
                    tie = ""
                    tp, tn = m.get("tie_prev"), m.get("tie_next")
                    # ties are only written when both ends are encoded in this spine
                    tp = tp if tp and byid[tp] in notes else None
                    tn = tn if tn and byid[tn] in notes else None
                    pre = "[" if (tn and not tp) else ""
                    post = "]" if (tp and not tn) else ("_" if (tp and tn) else "")
                    parts.append(pre + r + pitch_token(m["step"], m["alter"], m["octave"]) + post)
                    exp_notes.append((q, d, m["step"], m["alter"] or 0, m["octave"], False, bool(tp), bool(tn)))
                if len(parts) > 1 and any(x.endswith("r") for x in parts):
                    parts = [x for x in parts if not x.endswith("r")]
                toks.append(("main", " ".join(parts)))
            events[q] = toks
        if not ok:
            return None, None
        # a spine must account for every measure: measures in which this voice is silent get rests
        for m in p["measures"]:
            if any(m["s"] <= n["t"] < m["e"] for n in notes):
                continue
            a, b = gen.quarter_pos(p, m["s"]), gen.quarter_pos(p, m["e"])
            pos = a
            while pos < b:
                for d in (F(4), F(3), F(2), F(3, 2), F(1), F(3, 4), F(1, 2), F(1, 4), F(1, 8)):
                    if pos + d <= b and recip(d) is not None:
                        events[pos] = [("main", recip(d) + "r")]
                        pos += d
                        break
                else:
                    return None, None
        clef = next((c for c in p["clefs"] if c["staff"] == st and c["t"] == 0), None)
        ks = p["keysigs"][0] if p["keysigs"] else None
        cols.append({"pi": pi, "st": st, "events": events, "clef": clef, "ks": ks, "ts": [(gen.quarter_pos(p, t["t"]), t["beats"], t["beat_type"]) for t in p["timesigs"]]})
        expected.append({"part": pi, "staff": st, "voice": v, "notes": exp_notes, "measures": [b for b, _ in bars], "timesigs": [(gen.quarter_pos(p, t["t"]), t["beats"], t["beat_type"]) for t in p["timesigs"]], "key": ks["fifths"] if ks else None, "clef": (clef["sign"], clef["line"]) if clef else None})
    # a spine split that carries real music: the second voice of one staff is written, for one measure, in a
    # sub-spine opened with *^ and merged with *v at the end of the measure
    pseudo = None
    if split is not None and len(bars) >= 2 and len(split) > 2 and split[2]:
        col = split[0] % len(cols)
        mi = 1 + split[1] % (len(bars) - 1)
        pi, p, st, v, _ = spines[col]
        vs = sorted(set(n["voice"] for n in p["notes"] if n["staff"] == st))
        v2 = [n for n in p["notes"] if len(vs) > 1 and n["staff"] == st and n["voice"] == vs[1] and n["m"] == mi and n["kind"] != "grace"]
        ev2, exp2 = _voice_events(p, v2, p["measures"][mi]) if v2 else (None, None)
        if ev2:
            pseudo = (col, mi, exp2)
            cols.insert(col + 1, {"pi": pi, "st": st, "events": ev2, "clef": None, "ks": None, "ts": [], "pseudo": True})
    # header
    ncol = len(cols)
    rows = [["**kern"] * ncol, ["*staff%d" % (i + 1) for i in range(ncol)][::-1] if False else ["*staff%d" % (c["st"] + 2 * c["pi"]) for c in cols]]
    if same_part:
        # all spines belong to one instrument (e.g. the staves of a piano part)
        rows.append(["*part1"] * ncol)
    rows.append(["*clef%s%d" % (c["clef"]["sign"], c["clef"]["line"]) if c["clef"] else "*" for c in cols])

    def keytok(ks):
        if ks is None:
            return "*"
        f = ks["fifths"]
        acc = KEY_ORDER_SHARP[:f] if f > 0 else KEY_ORDER_FLAT[:-f]
        return "*k[" + "".join(acc) + "]"

    rows.append([keytok(c["ks"]) for c in cols])
    # body: time-ordered rows
    times = sorted(set(q for c in cols for q in c["events"]) | set(b for b, _ in bars))
    barmap = dict(bars)
    tsmap = {}
    for c in cols:
        for q, b, t in c["ts"]:
            tsmap.setdefault(q, {})[id(c)] = "*M%d/%d" % (b, t)
    first = True
    for q in times:
        if q in tsmap:
            rows.append([tsmap[q].get(id(c), "*") for c in cols])
        if q in barmap:
            num = barmap[q]
            rows.append(["=%d%s" % (num, "-" if first else "")] * ncol)
            first = False
        # grace rows first (each spine's graces in order, padded with '.')
        maxg = max(len([t for t in c["events"].get(q, []) if t[0] == "grace"]) for c in cols)
        for gi in range(maxg):
            row = []
            for c in cols:
                gs = [t for t in c["events"].get(q, []) if t[0] == "grace"]
                row.append(gs[gi][1] if gi < len(gs) else ".")
            rows.append(row)
        row = []
        anym = False
        for c in cols:
            ms = [t for t in c["events"].get(q, []) if t[0] == "main"]
            row.append(ms[0][1] if ms else ".")
            anym = anym or bool(ms)
        if anym:
            rows.append(row)
    rows.append(["=="] * ncol)
    rows.append(["*-"] * ncol)
    did_split = False
    if pseudo is not None:
        col, mi, exp2 = pseudo
        i0 = next(i for i, row in enumerate(rows) if row[0].startswith("=%d" % bars[mi][1]) and not row[0].startswith("=="))
        i1 = next(i for i in range(i0 + 1, len(rows)) if rows[i][0].startswith("="))
        body = rows[i0 + 1 : i1]
        if body and all(not row[0].startswith("*") for row in body):
            drop = lambda row: row[: col + 1] + row[col + 2 :]
            split_row = ["*"] * (ncol - 1)
            split_row[col] = "*^"
            merge_row = ["*"] * col + ["*v", "*v"] + ["*"] * (ncol - col - 2)
            rows = [drop(r) for r in rows[: i0 + 1]] + [split_row] + body + [merge_row] + [drop(r) for r in rows[i1:]]
            expected[col]["notes"] = expected[col]["notes"] + exp2
            did_split = "notes"
        else:
            rows = [row[: col + 1] + row[col + 2 :] for row in rows]
        cols.pop(col + 1)
        ncol -= 1
        split = None
    if split is not None and len(bars) >= 2:
        # one spine splits into two sub-spines for one measure (the second carries a whole-measure rest) and
        # merges again: the notation denotes the same notes, but the rows no longer have a constant number of
        # columns, which is what sends load_kern to its spine-splitting reader
        col = split[0] % ncol
        mi = 1 + split[1] % (len(bars) - 1)  # never the first measure (tandem lines precede it)
        mlen = (bars[mi + 1][0] if mi + 1 < len(bars) else end_q) - bars[mi][0]
        r = recip(mlen)
        i0 = next((i for i, row in enumerate(rows) if row[0].startswith("=%d" % bars[mi][1]) and not row[0].startswith("==")), None)
        if r is not None and i0 is not None:
            i1 = next(i for i in range(i0 + 1, len(rows)) if rows[i][0].startswith("="))
            body = rows[i0 + 1 : i1]
            if body and all(not row[0].startswith("*") for row in body):
                new_body = []
                placed = False
                for row in body:
                    tok = row[col]
                    b = "."
                    if not placed and tok != "." and not tok.endswith("q"):
                        b = r + "r"
                        placed = True
                    new_body.append(row[:col] + [tok, b] + row[col + 1 :])
                if placed:
                    split_row = ["*"] * ncol
                    split_row[col] = "*^"
                    merge_row = ["*"] * col + ["*v", "*v"] + ["*"] * (ncol - col - 1)
                    rows = rows[: i0 + 1] + [split_row] + new_body + [merge_row] + rows[i1:]
                    did_split = True
    text = "\n".join("\t".join(r) for r in rows) + "\n"
    return text, {"spines": expected, "end": end_q, "split": did_split}
