"""Seeded generator of abstract scores (plain JSON-able dicts, exact arithmetic
in Fractions while generating, integer divisions on output).

The abstract score is the ground truth of every storage-world oracle;
partitura never sees it (model/build.py turns it into partitura objects through
the public API only).

Times of a part are integers on the part's own timeline ("divs"); the quarter
duration in force is given by `qdivs` = [[t, q], ...].  Profiles restrict the
generator to the precondition of one property (see DESIGN 2.9)."""
from fractions import Fraction as F
from math import gcd

STEPS = "CDEFGAB"
STEP_PC = {"C": 0, "D": 2, "E": 4, "F": 5, "G": 7, "A": 9, "B": 11}

# duration in quarters -> (type, dots)
SYM = {
    F(4): ("whole", 0),
    F(3): ("half", 1),
    F(2): ("half", 0),
    F(3, 2): ("quarter", 1),
    F(1): ("quarter", 0),
    F(3, 4): ("eighth", 1),
    F(1, 2): ("eighth", 0),
    F(3, 8): ("16th", 1),
    F(1, 4): ("16th", 0),
    F(1, 8): ("32nd", 0),
    F(6): ("whole", 1),
    F(7, 2): ("half", 2),
    F(7, 4): ("quarter", 2),
}
# tuplet groups: (n notes, each of duration d quarters, symbolic type, actual, normal)
TUPLETS = [
    (3, F(1, 3), "eighth", 3, 2),
    (3, F(2, 3), "quarter", 3, 2),
    (3, F(1, 6), "16th", 3, 2),
    (5, F(1, 5), "16th", 5, 4),
    (6, F(1, 6), "16th", 6, 4),
]
PLAIN = [F(4), F(3), F(2), F(3, 2), F(1), F(3, 4), F(1, 2), F(1, 4), F(1, 8), F(3, 8), F(7, 2), F(7, 4)]
PLAIN_W = [1, 1, 3, 2, 6, 1, 5, 3, 1, 1, 0.5, 0.5]

TIMESIGS = [(4, 4), (3, 4), (2, 4), (6, 8), (2, 2), (5, 8), (3, 8), (9, 8), (7, 8), (5, 4), (1, 4), (3, 2), (12, 8), (3, 16)]
TIMESIGS_W = [6, 4, 3, 3, 1, 1, 1, 1, 1, 1, 0.4, 0.4, 0.4, 0.4]

ARTICULATIONS = ["accent", "staccato", "tenuto", "staccatissimo", "strong-accent", "detached-legato"]
DYNAMICS = ["p", "f", "mf", "mp", "pp", "ff", "sf", "fp"]


def lcm(a, b):
    return a * b // gcd(a, b)


def wchoice(rng, items, weights):
    tot = sum(weights)
    x = rng.random() * tot
    acc = 0
    for it, w in zip(items, weights):
        acc += w
        if x < acc:
            return it
    return items[-1]


# beat units of metronome marks and their length in quarters ("q." = dotted quarter)
TEMPO_UNITS = ("q", "q", "q", "h", "e", "q.", "h.", "e.")
TEMPO_UNIT_QUARTERS = {"q": F(1), "h": F(2), "e": F(1, 2), "q.": F(3, 2), "h.": F(3), "e.": F(3, 4)}


def tempo_mpq(bpm, unit):
    """microseconds per quarter of a metronome mark of `bpm` units per minute"""
    return int(round(F(60_000_000) / (F(bpm) * TEMPO_UNIT_QUARTERS[unit or "q"])))


# what a word (or its usual abbreviation) asks for: (kind of direction, unabbreviated word) - from the musical terms
# themselves, not from partitura's tables
WORD_MEANING = {
    "ritenuto": ("DecreasingTempoDirection", "ritenuto"),
    "riten.": ("DecreasingTempoDirection", "ritenuto"),
    "ritardando": ("DecreasingTempoDirection", "ritardando"),
    "rall.": ("DecreasingTempoDirection", "rallentando"),
    "accel.": ("IncreasingTempoDirection", "accelerando"),
    "cresc.": ("IncreasingLoudnessDirection", "crescendo"),
    "dim.": ("DecreasingLoudnessDirection", "diminuendo"),
    "smorz.": ("DecreasingLoudnessDirection", "smorzando"),
    "ten.": ("ConstantTempoDirection", "tenuto"),
    "sost.": ("ConstantLoudnessDirection", "sostenuto"),
}


def midi_pitch(step, alter, octave):
    return 12 * (octave + 1) + STEP_PC[step] + (alter or 0)


def fill_voice(rng, length, opts):
    """Return a list of (offset, dur, sym, tuplet_group_id or None) in quarters
    filling [0, length) exactly, using plain values and tuplet groups."""
    out = []
    pos = F(0)
    gid = 0
    guard = 0
    while pos < length and guard < 200:
        guard += 1
        rem = length - pos
        if opts.get("tuplets") and rng.random() < opts["tuplets"]:
            cands = [t for t in TUPLETS if t[0] * t[1] <= rem and (pos * 2) % 1 == 0]
            if cands:
                n, d, typ, act, nor = rng.choice(cands)
                for k in range(n):
                    out.append((pos, d, {"type": typ, "dots": 0, "actual_notes": act, "normal_notes": nor}, gid))
                    pos += d
                gid += 1
                continue
        cands = [(d, w) for d, w in zip(PLAIN, PLAIN_W) if d <= rem and d >= opts.get("min_dur", F(1, 8))]
        if not cands:
            # remainder smaller than the smallest allowed value: one odd value that is still expressible
            if rem in SYM:
                d = rem
            else:
                break
        else:
            d = wchoice(rng, [c[0] for c in cands], [c[1] for c in cands])
        typ, dots = SYM[d]
        out.append((pos, d, {"type": typ, "dots": dots}, None))
        pos += d
    return out


def pick_size(tier, rng):
    """swarm knob: the thorough tier mixes in longer scores (4-8 measures); the quick tier never draws"""
    if tier == "thorough" and rng.random() < 0.3:
        return "large"
    return "small"


def gen_score(rng, profile="full", size="small"):
    """profile: full | midi | match | unfold | kernmei | plain"""
    meter_changes_ok = profile == "mei2"  # mei2 = mei + time-signature changes at barlines
    if profile == "mei2":
        profile = "mei"
    nparts = 1 if profile in ("match", "unfold", "simple") else rng.choice((1, 1, 2, 2, 3))
    nmeas = rng.choice((1, 2, 3, 4, 6)) if size == "small" else rng.choice((4, 6, 8))
    if profile == "unfold":
        nmeas = rng.choice((3, 4, 5, 6, 8))
    # global measure plan (shared by all parts: MusicXML parts are aligned)
    ts = wchoice(rng, TIMESIGS, TIMESIGS_W)
    plan = []  # (length in quarters, (beats, beat_type) or None if unchanged)
    pickup = None
    if profile not in ("unfold", "mei", "simple") and rng.random() < 0.3 and not (profile == "match" and nmeas < 2):
        full = F(ts[0] * 4, ts[1])
        opts = [x for x in (F(1), F(1, 2), F(2), F(3, 2), F(1, 4)) if x < full]
        if opts:
            pickup = rng.choice(opts)
    cur = ts
    for m in range(nmeas):
        change = None
        if m == 0:
            change = cur
        elif rng.random() < (0.3 if meter_changes_ok else 0.15) and (meter_changes_ok or profile not in ("unfold", "mei", "simple")):
            new_ts = wchoice(rng, TIMESIGS, TIMESIGS_W)
            if new_ts != cur:  # a repeated identical signature is not a change
                cur = new_ts
                change = cur
            elif profile == "midi":
                # ... but it is a mark of the score all the same (restated at a section start): MIDI keeps it
                change = cur
        L = F(cur[0] * 4, cur[1])
        if m == 0 and pickup is not None:
            L = pickup
        plan.append((L, change))
    parts = []
    for p in range(nparts):
        parts.append(gen_part(rng, "P%d" % (p + 1), plan, pickup is not None, profile))
    if profile == "midi" and nparts >= 2 and parts[0]["tempos"] and rng.random() < 0.35:
        # the tempo marks stand in another part than the first (e.g. above the piano part of a duo)
        starts0 = [m["s"] for m in parts[0]["measures"]]
        if all(tm["t"] in starts0 for tm in parts[0]["tempos"]):
            j = rng.randrange(1, nparts)
            parts[j]["tempos"] = [dict(tm, t=parts[j]["measures"][starts0.index(tm["t"])]["s"]) for tm in parts[0]["tempos"]]
            parts[0]["tempos"] = []
    sc = {"id": None, "parts": parts, "groups": None}
    if nparts >= 2 and profile in ("full", "midi") and rng.random() < 0.4:
        # nested groups: describe structure as nested lists of part indices
        if nparts == 2:
            sc["groups"] = [{"name": "G1", "symbol": rng.choice(("brace", "bracket", None)), "number": 1, "children": [0, 1]}]
        elif rng.random() < 0.5:
            sc["groups"] = [
                {"name": "G1", "symbol": "bracket", "number": 1, "children": [0, {"name": "G2", "symbol": "brace", "number": 2, "children": [1, 2]}]}
            ]
        else:
            # the outer group continues after its nested group
            sc["groups"] = [
                {"name": "G1", "symbol": "bracket", "number": 1, "children": [{"name": "G2", "symbol": "brace", "number": 2, "children": [0, 1]}, 2]}
            ]
    return sc


def tmap_ok(tmap, off):
    try:
        tmap(off)
        return True
    except AssertionError:
        return False


def gen_part(rng, pid, plan, has_pickup, profile):
    one_div = profile in ("match", "kernmei", "mei", "simple")
    simple = profile == "simple"
    nstaves = 1 if (profile in ("match",) and rng.random() < 0.6) or simple else rng.choice((1, 1, 2))
    voices = []  # (voice number, staff)
    v = 1
    for s in range(1, nstaves + 1):
        for _ in range(1 if simple else rng.choice((1, 1, 2))):
            voices.append((v, s))
            v += 1
    tup_p = 0.0 if (profile in ("kernmei", "mei") and rng.random() < 0.5) or simple else rng.choice((0.0, 0.15, 0.3))
    gaps = rng.choice((0, 0, 0, 0.1)) if profile in ("full", "plain") else 0
    unequal = rng.choice((0, 0, 0.5)) if profile in ("full", "plain", "midi") else 0
    min_dur = rng.choice((F(1, 8), F(1, 4), F(1, 4), F(1, 2)))
    # --- rhythms per measure per voice, in quarters relative to the measure start
    voice_opts = {}
    content = []  # per measure: list of (voice, staff, items)
    denoms = []
    for L, _ in plan:
        mv = []
        den = 1
        for vn, st in voices:
            if len(voices) > 1 and rng.random() < 0.15:
                continue  # voice silent in this measure (gap, no rests)
            if vn not in voice_opts:
                # rhythmic vocabulary differs between voices (one may have triplets, another small binary values)
                voice_opts[vn] = {"tuplets": tup_p if rng.random() < 0.6 else rng.choice((0.0, 0.4)), "min_dur": min_dur if rng.random() < 0.6 else rng.choice((F(1, 8), F(1, 4), F(1, 2), F(1)))}
                if simple:
                    voice_opts[vn]["tuplets"] = 0.0
            items = fill_voice(rng, L, voice_opts[vn])
            for off, d, sym, g in items:
                den = lcm(den, off.denominator)
                den = lcm(den, d.denominator)
            mv.append((vn, st, items))
        den = lcm(den, L.denominator)
        content.append(mv)
        denoms.append(den)
    # --- divisions per measure: constant, or changing at measure starts
    base = 1
    for d in denoms:
        base = lcm(base, d)
    nm = len(plan)
    if one_div or rng.random() < 0.55 or nm == 1:
        q_per_measure = [base * rng.choice((1, 1, 2))] * nm
    else:
        q_per_measure = []
        cur = None
        for m in range(nm):
            if cur is None or rng.random() < 0.4:
                # smallest valid for the rest of... just this measure, times a factor
                cur = denoms[m] * rng.choice((1, 1, 2, 3))
            if cur % denoms[m] != 0:
                cur = lcm(cur, denoms[m])
            q_per_measure.append(cur)
    # --- optional mid-measure divisions change at a boundary common to all voices
    mid_split = {}
    if not one_div and profile in ("full", "midi", "plain") :
        for m, (L, _) in enumerate(plan):
            if rng.random() < 0.12 and content[m]:
                common = None
                for vn, st, items in content[m]:
                    b = set(off for off, d, sym, g in items if g is None or True)
                    # a boundary must not fall inside a tuplet group
                    inner = set()
                    groups = {}
                    for off, d, sym, g in items:
                        if g is not None:
                            groups.setdefault(g, []).append(off)
                    for g, offs in groups.items():
                        inner |= set(sorted(offs)[1:])
                    b -= inner
                    common = b if common is None else (common & b)
                common = sorted(x for x in (common or ()) if 0 < x < L)
                if common:
                    x = rng.choice(common)
                    q1 = q_per_measure[m]
                    # the second half needs its own valid divisions value
                    den2 = 1
                    for vn, st, items in content[m]:
                        for off, d, sym, g in items:
                            if off >= x:
                                den2 = lcm(den2, (off - x).denominator)
                                den2 = lcm(den2, d.denominator)
                    den2 = lcm(den2, (L - x).denominator)
                    den1 = x.denominator
                    for vn, st, items in content[m]:
                        for off, d, sym, g in items:
                            if off < x:
                                den1 = lcm(den1, off.denominator)
                                den1 = lcm(den1, d.denominator)
                    if q1 % den1 == 0:
                        q2 = den2 * rng.choice((1, 2, 3))
                        if q2 != q1:
                            mid_split[m] = (x, q2)
    # --- lay out on the integer timeline
    t = 0
    measures = []
    qdivs = []
    timesigs = []
    notes = []
    nid = [0]
    mstart = []
    for m, (L, change) in enumerate(plan):
        q = q_per_measure[m]
        if not qdivs or qdivs[-1][1] != q:
            qdivs.append([t, q])
        if change is not None:
            timesigs.append({"t": t, "beats": change[0], "beat_type": change[1]})
        if m in mid_split:
            x, q2 = mid_split[m]
            t_split = t + int(x * q)
            ln = x * q + (L - x) * q2
            qdivs.append([t_split, q2])

            def tmap(off, t=t, q=q, x=x, q2=q2, t_split=t_split):
                v = t + off * q if off <= x else t_split + (off - x) * q2
                assert v.denominator == 1, (off, q, x, q2)
                return int(v)

            # following measures keep q2 unless they set their own value
            if m + 1 < len(plan) and q_per_measure[m + 1] == q:
                pass
        else:
            ln = L * q

            def tmap(off, t=t, q=q):
                v = t + off * q
                assert v.denominator == 1, (off, q)
                return int(v)

        assert ln.denominator == 1
        number = m + 1 if not has_pickup else m
        measures.append({"s": t, "e": t + int(ln), "number": m + 1, "name": str(number)})
        mstart.append(t)
        for vn, st, items in content[m]:
            gmap = {}
            for off, d, sym, g in items:
                s = tmap(off)
                e = tmap(off + d)
                kind = "rest" if rng.random() < 0.15 else "note"
                if gaps and g is None and rng.random() < gaps:
                    continue  # a gap: nothing at all in this voice here
                chord = 1
                if kind == "note" and rng.random() < 0.2 and not simple:
                    chord = rng.choice((2, 2, 3))
                base_oct = 4 if st == 1 else 3
                used = set()
                for c in range(chord):
                    nid[0] += 1
                    n = {"id": "%sn%d" % (pid.lower(), nid[0]), "kind": kind, "t": s, "e": e, "voice": vn, "staff": st, "sym": dict(sym), "m": m, "g": (m, vn, g) if g is not None else None}
                    if unequal and c > 0 and g is None and rng.random() < unequal:
                        # a chord member with its own (shorter) notated value: half of a binary value stays expressible
                        # (a third member may be shorter still: three different lengths struck together)
                        half = d / 4 if (c > 1 and rng.random() < 0.6 and (d / 4) in SYM and tmap_ok(tmap, off + d / 4)) else d / 2
                        if half in SYM and (off + half) == (off + half) and tmap_ok(tmap, off + half):
                            n["e"] = tmap(off + half)
                            n["sym"] = {"type": SYM[half][0], "dots": SYM[half][1]}
                    if kind == "note":
                        for _ in range(10):
                            step = rng.choice(STEPS)
                            alter = wchoice(rng, [None, 1, -1, 2, -2], [12, 3, 3, 0 if simple else 0.3, 0 if simple else 0.3])
                            octave = base_oct + rng.choice((0, 0, 1, -1))
                            mp = midi_pitch(step, alter, octave)
                            if mp not in used:
                                break
                        if profile in ("midi", "match") and rng.random() < 0.05:
                            # the ends of the MIDI range: C-1 .. B0 (pitches 0-23) and C9 .. G9 (120-127)
                            step2, octave2 = rng.choice((("C", -1), ("D", -1), ("B", -1), ("C", 0), ("A", 0), ("C", 9), ("G", 9), ("F", 9)))
                            if midi_pitch(step2, None, octave2) not in used:
                                step, alter, octave = step2, None, octave2
                                mp = midi_pitch(step, alter, octave)
                        used.add(mp)
                        n.update({"step": step, "alter": alter, "octave": octave})
                    notes.append(n)
        t += int(ln)
        if m in mid_split and m + 1 < len(plan):
            # the next measure must state its divisions if they differ from q2
            pass
    end_t = t
    part = {
        "id": pid,
        "name": rng.choice(("Piano", "Violin", "Part " + pid, None)),
        "abbr": None,
        "qdivs": qdivs,
        "measures": measures,
        "timesigs": timesigs,
        "keysigs": [],
        "clefs": [],
        "notes": notes,
        "slurs": [],
        "tuplets": [],
        "dirs": [],
        "tempos": [],
        "repeats": [],
        "endings": [],
        "nav": [],
        "fermatas": [],
        "end": end_t,
        "nstaves": nstaves,
    }
    # --- key signatures, clefs
    part["keysigs"].append({"t": 0, "fifths": rng.choice((0, 0, 1, -1, 2, -3, 4, -5, 7, -7, 6, -6)), "mode": rng.choice(("major", "minor", None)) if profile != "match" else rng.choice(("major", "minor"))})
    if len(measures) > 2 and rng.random() < 0.2:
        mm = rng.choice(measures[1:])
        ks2 = {"t": mm["s"], "fifths": rng.choice((-2, 3, 0, 5)), "mode": rng.choice(("major", "minor"))}
        if (ks2["fifths"], ks2["mode"]) != (part["keysigs"][0]["fifths"], part["keysigs"][0]["mode"]):  # a repeated identical signature is not a change
            part["keysigs"].append(ks2)
    same_clef = rng.choice((("G", 2), ("F", 4))) if (nstaves > 1 and rng.random() < 0.2) else None
    for s in range(1, nstaves + 1):
        sign, line = (("G", 2) if s == 1 else ("F", 4))
        if same_clef is not None:
            # both hands in the same clef (a passage high or low on the keyboard)
            sign, line = same_clef
        elif rng.random() < 0.15:
            sign, line = rng.choice((("C", 3), ("C", 4), ("G", 2), ("F", 4)))
        part["clefs"].append({"t": 0, "staff": s, "sign": sign, "line": line, "oct": rng.choice((0, 0, 0, -1, 1)) if rng.random() < 0.2 else 0})
    if len(measures) > 1 and rng.random() < 0.15:
        mm = rng.choice(measures[1:])
        part["clefs"].append({"t": mm["s"], "staff": rng.randrange(1, nstaves + 1), "sign": "F", "line": 4, "oct": 0})
    decorate(rng, part, profile)
    return part


def decorate(rng, part, profile):
    if profile == "simple":
        return
    notes = part["notes"]
    by_voice = {}
    for n in notes:
        by_voice.setdefault(n["voice"], []).append(n)
    # --- ties: note tied to a later note of the same voice that starts where it ends
    tied_ids = set()
    for vn, vn_notes in by_voice.items():
        by_onset = {}
        for n in vn_notes:
            by_onset.setdefault(n["t"], []).append(n)
        for n in vn_notes:
            if n["kind"] != "note" or n.get("tie_next") or rng.random() > 0.18:
                continue
            nxt = [x for x in by_onset.get(n["e"], []) if x["kind"] == "note" and not x.get("tie_prev") and x["staff"] == n["staff"]]
            if not nxt:
                continue
            x = nxt[0]
            # the target takes this note's pitch, unless that collides within its chord
            mp = midi_pitch(n["step"], n["alter"], n["octave"])
            if any(y is not x and y["kind"] == "note" and midi_pitch(y["step"], y["alter"], y["octave"]) == mp for y in by_onset[x["t"]]):
                continue
            x["step"], x["alter"], x["octave"] = n["step"], n["alter"], n["octave"]
            n["tie_next"] = x["id"]
            x["tie_prev"] = n["id"]
    # concurrently sounding tied notes of one part must have distinct pitches (MusicXML pairs ties by pitch):
    # drop ties that violate it
    def mp_of(n):
        return midi_pitch(n["step"], n["alter"], n["octave"])

    tied = [n for n in notes if n.get("tie_next")]
    byid = {n["id"]: n for n in notes}
    for n in list(tied):
        for o in notes:
            if o is n or o["kind"] != "note" or o["id"] == n.get("tie_next"):
                continue
            # any other note of equal pitch sounding or starting around the tie join breaks pairing
            if mp_of(o) == mp_of(n) and o["t"] <= n["e"] and o["e"] >= n["t"] and not (o.get("tie_next") == n["id"]):
                x = byid[n["tie_next"]]
                n["tie_next"] = None
                x["tie_prev"] = None
                break
    # --- grace notes
    if profile in ("full", "midi", "match", "kernmei", "mei", "plain", "unfold") and rng.random() < 0.35:
        mains = [n for n in notes if n["kind"] == "note" and not n.get("tie_prev")]
        rng.shuffle(mains)
        k = 0
        for main in mains[: rng.choice((1, 1, 2))]:
            cnt = rng.choice((1, 1, 2, 3))
            if profile == "full" and rng.random() < 0.04:
                cnt = rng.choice((33, 40, 48))  # a cadenza written in small notes
            gtype = rng.choice(("appoggiatura", "acciaccatura", "grace"))
            prev = None
            seq = []
            for c in range(cnt):
                k += 1
                g = {
                    "id": "%sg%d" % (main["id"], c),
                    "kind": "grace",
                    "t": main["t"],
                    "e": main["t"],
                    "voice": main["voice"],
                    "staff": main["staff"],
                    "sym": {"type": rng.choice(("eighth", "16th")), "dots": 0},
                    "step": rng.choice(STEPS),
                    "alter": None,
                    "octave": main["octave"] if main["octave"] < 9 else 8,
                    "grace_type": gtype,
                    "m": main["m"],
                    "g": None,
                }
                seq.append(g)
            for a, b in zip(seq, seq[1:]):
                a["grace_next"] = b["id"]
                b["grace_prev"] = a["id"]
            seq[-1]["grace_next"] = main["id"]
            main["grace_prev"] = seq[-1]["id"]
            if profile == "full" and rng.random() < 0.25 and not any(o is not main and o["kind"] == "note" and mp_of(o) == mp_of(main) and o["t"] <= main["t"] <= o["e"] for o in notes):
                # a grace note tied into its main note
                g = seq[-1]
                g["step"], g["alter"], g["octave"] = main["step"], main["alter"], main["octave"]
                g["tie_next"] = main["id"]
                main["tie_prev"] = g["id"]
            idx = notes.index(main)
            notes[idx:idx] = seq
    # --- tuplet brackets over generated tuplet groups
    groups = {}
    for n in notes:
        if n.get("g") is not None:
            groups.setdefault(tuple(n["g"]), []).append(n)
    for key, ns in sorted(groups.items()):
        ns = sorted(ns, key=lambda n: n["t"])
        firsts = [n for n in ns if n["t"] == ns[0]["t"]]
        lasts = [n for n in ns if n["t"] == ns[-1]["t"]]
        x = rng.random()
        onsets = sorted(set(n["t"] for n in ns))
        if x < 0.12 and profile == "full" and len(onsets) >= 3:
            # two brackets that share a note: the note that ends the first begins the second
            mid = [n for n in ns if n["t"] == onsets[len(onsets) // 2]][0]
            for a, b in ((firsts[0], mid), (mid, lasts[0])):
                part["tuplets"].append({"start": a["id"], "end": b["id"], "actual": ns[0]["sym"]["actual_notes"], "normal": ns[0]["sym"]["normal_notes"], "type": ns[0]["sym"]["type"]})
        elif x < 0.7:
            part["tuplets"].append({"start": firsts[0]["id"], "end": lasts[0]["id"], "actual": ns[0]["sym"]["actual_notes"], "normal": ns[0]["sym"]["normal_notes"], "type": ns[0]["sym"]["type"]})
    # --- slurs
    for vn, vn_notes in sorted(by_voice.items()):
        pitched = [n for n in vn_notes if n["kind"] == "note"]
        if len(pitched) >= 2 and rng.random() < 0.4:
            i = rng.randrange(0, len(pitched) - 1)
            j = rng.randrange(i + 1, min(len(pitched), i + 6))
            if pitched[j]["t"] > pitched[i]["t"]:
                part["slurs"].append({"start": pitched[i]["id"], "end": pitched[j]["id"]})
                if rng.random() < 0.3 and j + 1 < len(pitched) and pitched[j + 1]["t"] > pitched[j]["t"]:
                    # a second slur starting where the first ends
                    part["slurs"].append({"start": pitched[j]["id"], "end": pitched[j + 1]["id"]})
    if profile == "full":
        # a slur from the first grace note of a run to its main note: both ends have the same onset
        byid_ = {n["id"]: n for n in notes}
        for n in notes:
            if n["kind"] == "grace" and not n.get("grace_prev") and rng.random() < 0.35:
                x = n
                while x.get("grace_next") and byid_[x["grace_next"]]["kind"] == "grace":
                    x = byid_[x["grace_next"]]
                main_ = byid_.get(x.get("grace_next"))
                if main_ is not None and not any(sl["start"] == n["id"] or sl["end"] == main_["id"] or sl["start"] == main_["id"] for sl in part["slurs"]):
                    part["slurs"].append({"start": n["id"], "end": main_["id"]})
    # --- per-note decorations
    for n in notes:
        if n["kind"] == "note":
            if rng.random() < 0.12:
                n["art"] = sorted(set(rng.choice(ARTICULATIONS) for _ in range(rng.choice((1, 1, 2)))))
            if rng.random() < 0.08:
                n["finger"] = rng.randrange(1, 6)
            if rng.random() < 0.15:
                n["stem"] = rng.choice(("up", "down"))
            if rng.random() < 0.05:
                n["fermata"] = True
    # --- directions
    ms = part["measures"]
    onsets = sorted(set(n["t"] for n in notes)) or [0]
    if profile in ("full", "unfold", "plain"):
        for _ in range(rng.choice((0, 1, 2, 3))):
            t = rng.choice(onsets)
            kind = rng.choice(("dyn", "wedge", "words", "dyn"))
            st = rng.randrange(1, part["nstaves"] + 1)
            if kind == "dyn":
                part["dirs"].append({"kind": "dyn", "text": rng.choice(DYNAMICS), "t": t, "e": None, "staff": st})
            elif kind == "wedge":
                later = [x for x in onsets if x > t] + [part["end"]]
                e = rng.choice(later)
                part["dirs"].append({"kind": "wedge", "text": rng.choice(("crescendo", "diminuendo")), "t": t, "e": e, "staff": st})
            else:
                w = rng.choice(("dolce", "espressivo", "legato", "Allegro", "rit.", "a tempo") + tuple(sorted(WORD_MEANING)))
                d = {"kind": "words", "text": w, "t": t, "e": None, "staff": st}
                if w in WORD_MEANING and rng.random() < 0.6:
                    # built through the class of the public API instead of the direction parser
                    d["cls"] = WORD_MEANING[w][0]
                part["dirs"].append(d)
        if rng.random() < 0.3:
            part["tempos"].append({"t": 0, "bpm": rng.choice((60, 72, 96, 120, 144)), "unit": "q"})
    elif profile == "midi":
        # tempo is global in a MIDI file: only the first part carries tempo marks
        if part["id"] == "P1" and rng.random() < 0.6:
            part["tempos"].append({"t": 0 if rng.random() < 0.7 else rng.choice(onsets), "bpm": rng.choice((60, 72, 96, 120, 144)), "unit": rng.choice(TEMPO_UNITS)})
            if rng.random() < 0.3 and len(ms) > 1:
                t2 = rng.choice(ms[1:])["s"]
                if t2 != part["tempos"][0]["t"]:
                    part["tempos"].append({"t": t2, "bpm": rng.choice((50, 80, 100, 132)), "unit": rng.choice(TEMPO_UNITS)})
    # --- repeat structure at measure boundaries
    if profile in ("full", "unfold") and len(ms) >= 2 and (profile == "unfold" or rng.random() < 0.25):
        gen_repeats(rng, part, profile)


def gen_repeats(rng, part, profile):
    ms = part["measures"]
    n = len(ms)
    bounds = [m["s"] for m in ms] + [ms[-1]["e"]]
    shape = rng.choice(("simple", "simple2", "volta", "volta3", "dacapo", "dalsegno", "volta+simple", "coda", "simple+dacapo", "volta+dacapo", "nested")) if profile == "unfold" else rng.choice(("simple", "volta"))
    part["repeat_shape"] = shape

    def rep(a, b):
        part["repeats"].append({"s": bounds[a], "e": bounds[b]})

    def ending(a, b, number):
        part["endings"].append({"s": bounds[a], "e": bounds[b], "number": number})

    if shape == "nested":
        # |: A |: B :| C :|  - a repeat inside a repeat (they may share the start or the end barline, not both)
        if n >= 3:
            a = rng.randrange(0, n - 1)
            d = rng.randrange(a + 2, n + 1)
            b = rng.randrange(a, d - 1)
            c = rng.randrange(b + 1, d + 1)
            if (a, d) == (b, c):
                c = d - 1 if d - 1 > b else c
            if (a, d) == (b, c):
                b = a + 1
            rep(a, d)
            rep(b, c)
        else:
            part["repeat_shape"] = shape = "simple"
    if shape == "simple":
        a = rng.randrange(0, n)
        b = rng.randrange(a + 1, n + 1)
        rep(a, b)
    elif shape == "simple2":
        if n >= 2:
            k = rng.randrange(1, n)
            rep(0, k)
            if k < n:
                b = rng.randrange(k + 1, n + 1)
                rep(k, b)
        else:
            rep(0, 1)
    elif shape in ("volta", "volta+simple"):
        if n >= 3:
            a = rng.randrange(0, n - 2)
            v1 = rng.randrange(a + 1, n - 1)
            rep(a, v1 + 1)
            ending(v1, v1 + 1, 1)
            ending(v1 + 1, v1 + 2, 2)
            if shape == "volta+simple" and v1 + 2 < n:
                rep(v1 + 2, n)
        else:
            rep(0, 1)
    elif shape == "volta3":
        if n >= 4:
            a = rng.randrange(0, n - 3)
            v1 = rng.randrange(a + 1, n - 2)
            # |: A | 1,2 B :| 3 C |
            rep(a, v1 + 1)
            ending(v1, v1 + 1, "1, 2")
            ending(v1 + 1, v1 + 2, 3)
        else:
            rep(0, n)
    elif shape == "dacapo":
        k = rng.randrange(1, n + 1)
        part["nav"].append({"cls": "DaCapo", "t": bounds[n]})
        if k < n and rng.random() < 0.7:
            part["nav"].append({"cls": "Fine", "t": bounds[k]})
    elif shape == "simple+dacapo":
        # |: A :| B  D.C. (al Fine): a choice point before the leap
        if n >= 2:
            b = rng.randrange(1, n)
            a = rng.randrange(0, b)
            rep(a, b)
            part["nav"].append({"cls": "DaCapo", "t": bounds[n]})
            if rng.random() < 0.7:
                part["nav"].append({"cls": "Fine", "t": bounds[rng.randrange(b, n)]})
        else:
            rep(0, 1)
    elif shape == "volta+dacapo":
        if n >= 4:
            a = rng.randrange(0, n - 3)
            v1 = rng.randrange(a + 1, n - 2)
            rep(a, v1 + 1)
            ending(v1, v1 + 1, 1)
            ending(v1 + 1, v1 + 2, 2)
            part["nav"].append({"cls": "DaCapo", "t": bounds[n]})
            if rng.random() < 0.7:
                part["nav"].append({"cls": "Fine", "t": bounds[rng.randrange(v1 + 2, n)]})
        else:
            rep(0, n)
    elif shape == "dalsegno":
        if n >= 2:
            sg = rng.randrange(0, n - 1)
            part["nav"].append({"cls": "Segno", "t": bounds[sg]})
            part["nav"].append({"cls": "DalSegno", "t": bounds[n]})
            if rng.random() < 0.5:
                f = rng.randrange(sg + 1, n)
                part["nav"].append({"cls": "Fine", "t": bounds[f]})
        else:
            rep(0, 1)
    elif shape == "coda":
        if n >= 4:
            tc = rng.randrange(1, n - 2)
            cd = rng.randrange(tc + 2, n)
            part["nav"].append({"cls": "ToCoda", "t": bounds[tc]})
            part["nav"].append({"cls": "DaCapo", "t": bounds[cd]})
            part["nav"].append({"cls": "Coda", "t": bounds[cd]})
        else:
            rep(0, n)


# ----------------------------------------------------------------------------
# exact musical time of an abstract part


def quarter_pos(part, t):
    """Exact quarter position (Fraction) of timeline time t, origin at t=0."""
    pos = F(0)
    q = part["qdivs"]
    for i, (t0, qq) in enumerate(q):
        t1 = q[i + 1][0] if i + 1 < len(q) else None
        if t1 is None or t < t1:
            return pos + F(t - t0, qq)
        pos += F(t1 - t0, qq)
    return pos


def sounding_notes(part, merge_ties=True):
    """[(onset_q, dur_q, midi_pitch, id)] of pitched non-grace notes, ties merged."""
    byid = {n["id"]: n for n in part["notes"]}
    out = []
    for n in part["notes"]:
        if n["kind"] not in ("note",):
            continue
        # (a note tied from a grace note sounds from its own onset: the grace note has no extent)
        if merge_ties and n.get("tie_prev") and byid[n["tie_prev"]]["kind"] != "grace":
            continue
        e = n["e"]
        if merge_ties:
            x = n
            while x.get("tie_next"):
                x = byid[x["tie_next"]]
                e = x["e"]
        out.append((quarter_pos(part, n["t"]), quarter_pos(part, e) - quarter_pos(part, n["t"]), midi_pitch(n["step"], n["alter"], n["octave"]), n["id"]))
    return out
