"""Independent Standard MIDI File reader and writer (the 'peer' of C04/C06).
No mido.  Reader returns absolute-tick events per track; writer takes them."""
import struct


class SMFError(Exception):
    pass


def _read_vlq(data, i):
    v = 0
    while True:
        if i >= len(data):
            raise SMFError("truncated variable-length quantity")
        b = data[i]
        i += 1
        v = (v << 7) | (b & 0x7F)
        if not b & 0x80:
            return v, i


def _vlq(v):
    out = [v & 0x7F]
    v >>= 7
    while v:
        out.append((v & 0x7F) | 0x80)
        v >>= 7
    return bytes(reversed(out))


def decode(data):
    """bytes -> {"format": f, "ppq": n, "tracks": [[event, ...], ...]}
    event = dict(tick=abs_tick, type=..., ...)"""
    if data[:4] != b"MThd":
        raise SMFError("no MThd header")
    hlen, fmt, ntr, div = struct.unpack(">IHHH", data[4:14])
    if div & 0x8000:
        raise SMFError("SMPTE time division not supported")
    i = 8 + hlen
    tracks = []
    for _ in range(ntr):
        if data[i : i + 4] != b"MTrk":
            raise SMFError("no MTrk chunk at %d" % i)
        (tlen,) = struct.unpack(">I", data[i + 4 : i + 8])
        j = i + 8
        end = j + tlen
        if end > len(data):
            raise SMFError("truncated track")
        tick = 0
        status = None
        evs = []
        while j < end:
            dt, j = _read_vlq(data, j)
            tick += dt
            b = data[j]
            if b == 0xFF:
                mtype = data[j + 1]
                ln, j = _read_vlq(data, j + 2)
                payload = data[j : j + ln]
                j += ln
                ev = {"tick": tick, "type": "meta", "meta": mtype, "data": bytes(payload)}
                if mtype == 0x51 and ln == 3:
                    ev = {"tick": tick, "type": "set_tempo", "tempo": int.from_bytes(payload, "big")}
                elif mtype == 0x58 and ln == 4:
                    ev = {"tick": tick, "type": "time_signature", "numerator": payload[0], "denominator": 2 ** payload[1], "clocks": payload[2], "n32": payload[3]}
                elif mtype == 0x59 and ln == 2:
                    sf = payload[0] - 256 if payload[0] > 127 else payload[0]
                    ev = {"tick": tick, "type": "key_signature", "fifths": sf, "minor": payload[1]}
                elif mtype == 0x2F:
                    ev = {"tick": tick, "type": "end_of_track"}
                elif mtype == 0x03:
                    ev = {"tick": tick, "type": "track_name", "name": payload.decode("latin-1")}
                evs.append(ev)
                continue
            if b in (0xF0, 0xF7):
                ln, j = _read_vlq(data, j + 1)
                j += ln
                continue
            if b & 0x80:
                status = b
                j += 1
            if status is None:
                raise SMFError("running status without status")
            hi = status & 0xF0
            ch = status & 0x0F
            if hi in (0x80, 0x90, 0xA0, 0xB0, 0xE0):
                d1, d2 = data[j], data[j + 1]
                j += 2
                if hi == 0x90:
                    evs.append({"tick": tick, "type": "note_on", "channel": ch, "note": d1, "velocity": d2})
                elif hi == 0x80:
                    evs.append({"tick": tick, "type": "note_off", "channel": ch, "note": d1, "velocity": d2})
                elif hi == 0xB0:
                    evs.append({"tick": tick, "type": "control_change", "channel": ch, "control": d1, "value": d2})
                else:
                    evs.append({"tick": tick, "type": "other", "channel": ch, "status": hi})
            elif hi in (0xC0, 0xD0):
                d1 = data[j]
                j += 1
                if hi == 0xC0:
                    evs.append({"tick": tick, "type": "program_change", "channel": ch, "program": d1})
            else:
                raise SMFError("unexpected status %02x" % status)
        tracks.append(evs)
        i = end
    return {"format": fmt, "ppq": div, "tracks": tracks}


def notes_of(track_events):
    """pair note_on with the next note_off / zero-velocity note_on of the same
    channel and pitch -> [(on_tick, off_tick, pitch, velocity, channel)]"""
    open_ = {}
    out = []
    for ev in track_events:
        if ev["type"] == "note_on" and ev["velocity"] > 0:
            open_[(ev["channel"], ev["note"])] = (ev["tick"], ev["velocity"])
        elif ev["type"] == "note_off" or (ev["type"] == "note_on" and ev["velocity"] == 0):
            k = (ev["channel"], ev["note"])
            if k in open_:
                on, vel = open_.pop(k)
                out.append((on, ev["tick"], ev["note"], vel, ev["channel"]))
    return out


def encode(ppq, tracks, fmt=None):
    """tracks: list of lists of events with absolute 'tick' (see decode); events
    at equal ticks keep their list order.  Returns bytes."""
    if fmt is None:
        fmt = 0 if len(tracks) == 1 else 1
    out = [b"MThd", struct.pack(">IHHH", 6, fmt, len(tracks), ppq)]
    for evs in tracks:
        body = bytearray()
        last = 0
        evs = sorted(enumerate(evs), key=lambda x: (x[1]["tick"], x[0]))
        for _, ev in evs:
            t = ev["type"]
            if t == "end_of_track":
                continue
            body += _vlq(ev["tick"] - last)
            last = ev["tick"]
            if t == "note_on":
                body += bytes([0x90 | ev["channel"], ev["note"], ev["velocity"]])
            elif t == "note_off":
                body += bytes([0x80 | ev["channel"], ev["note"], ev.get("velocity", 0)])
            elif t == "control_change":
                body += bytes([0xB0 | ev["channel"], ev["control"], ev["value"]])
            elif t == "program_change":
                body += bytes([0xC0 | ev["channel"], ev["program"]])
            elif t == "set_tempo":
                body += b"\xff\x51\x03" + int(ev["tempo"]).to_bytes(3, "big")
            elif t == "time_signature":
                dd = {1: 0, 2: 1, 4: 2, 8: 3, 16: 4, 32: 5}[ev["denominator"]]
                body += b"\xff\x58\x04" + bytes([ev["numerator"], dd, ev.get("clocks", 24), ev.get("n32", 8)])
            elif t == "key_signature":
                body += b"\xff\x59\x02" + bytes([ev["fifths"] & 0xFF, ev.get("minor", 0)])
            elif t == "pitchwheel":
                v = ev.get("pitch", 0) + 8192
                body += bytes([0xE0 | ev["channel"], v & 0x7F, (v >> 7) & 0x7F])
            elif t == "aftertouch":
                body += bytes([0xD0 | ev["channel"], ev.get("value", 64)])
            elif t == "polytouch":
                body += bytes([0xA0 | ev["channel"], ev["note"], ev.get("value", 64)])
            elif t == "sysex":
                data = bytes(ev.get("data", (0x7E, 0x7F, 0x09, 0x01)))
                body += b"\xf0" + _vlq(len(data) + 1) + data + b"\xf7"
            elif t == "track_name":
                nm = ev["name"].encode("latin-1")
                body += b"\xff\x03" + _vlq(len(nm)) + nm
            else:
                raise SMFError("cannot encode %r" % (t,))
        body += b"\x00\xff\x2f\x00"
        out.append(b"MTrk" + struct.pack(">I", len(body)) + bytes(body))
    return b"".join(out)
