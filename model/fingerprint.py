"""Fingerprints of partitura object graphs.

* Snapshotter: *identity* snapshot for the non-mutation oracle (C20 O3).  A
  registry maps id(obj) -> stable index and keeps the objects alive, so that a
  before/after pair renders every reference as the same index; buckets of a
  time point are rendered as sorted index lists (order within a time point is
  not part of any property).  Private caches and callables are ignored, empty
  defaultdict buckets are ignored.
* value_fp: address-free *value* fingerprint (used to compare results across
  worlds / fresh builds): references are rendered as (class, start, end, id).
"""
import hashlib
import json
from collections import defaultdict
from fractions import Fraction

import numpy as np

IGNORED_ATTRS = {
    "_quarter_map",  # cached interpolator (callable)
    "_number_of_staves",  # cache
    "iter_idx",  # container cursor: covered by the iteration oracles, not by the snapshot
}


# Private attributes that carry state of the object on the current tree.  Any other underscore attribute is
# implementation detail (typically a memo added by an optimisation): whether it holds the right thing is judged
# through the results of later calls (repeatability, fresh-world comparison), not by the identity snapshot.
STATE_PRIVATE = {
    "_points",
    "_quarter_times",
    "_quarter_durations",
    "_use_musical_beat",
    "_start_note",
    "_end_note",
    "_sym_dur",
    "_sustain_pedal_threshold",
    "_ref_attrs",
    "_accepted_keys",
}


def _prim(x):
    if x is None or isinstance(x, (bool, int, str)):
        return x
    if isinstance(x, float):
        return repr(x)
    if isinstance(x, Fraction):
        return "F%d/%d" % (x.numerator, x.denominator)
    if isinstance(x, np.integer):
        return int(x)
    if isinstance(x, np.floating):
        return repr(float(x))
    if isinstance(x, np.bool_):
        return bool(x)
    if isinstance(x, bytes):
        return "b:" + hashlib.sha256(x).hexdigest()[:16]
    return _NOPRIM


_NOPRIM = object()


def _is_tracked(x):
    return hasattr(x, "__dict__") and not isinstance(x, type) and not callable(x)


class Snapshotter(object):
    def __init__(self):
        self.index = {}
        self.keep = []
        # private attributes an object had when it was first seen: a private attribute that appears later is
        # treated as a cache (invisible state) and not rendered; a change of an existing one is a change
        self.first_private = {}

    def idx(self, o):
        k = id(o)
        i = self.index.get(k)
        if i is None:
            i = self.index[k] = len(self.keep)
            self.keep.append(o)
        return i

    def snapshot(self, *roots):
        """-> {index: {"cls": name, attr: rendered}}"""
        out = {}
        stack = list(reversed(roots))
        seen = set()
        while stack:
            o = stack.pop()
            if not _is_tracked(o) and not isinstance(o, (list, tuple, dict, set, np.ndarray)):
                continue
            if isinstance(o, (list, tuple, dict, set, np.ndarray)):
                # container given as a root (e.g. an alignment list): wrap
                key = self.idx(o)
                if key in seen:
                    continue
                seen.add(key)
                out[key] = {"cls": type(o).__name__, "v": self._render(o, stack)}
                continue
            key = self.idx(o)
            if key in seen:
                continue
            seen.add(key)
            rec = {"cls": type(o).__name__}
            d = o.__dict__
            priv = self.first_private.setdefault(key, frozenset(n for n in d if n.startswith("_")))
            for name in sorted(d):
                if name in IGNORED_ATTRS:
                    continue
                if name.startswith("_") and not name.startswith("__") and (name not in priv or name not in STATE_PRIVATE):
                    continue
                v = d[name]
                if callable(v) and not _is_tracked(v):
                    continue
                rec[name] = self._render(v, stack, bucket=(name in ("starting_objects", "ending_objects")))
            # dict-like objects (PerformedNote subclasses dict? it wraps pnote_dict) are covered by __dict__
            if isinstance(o, dict):
                rec["__items__"] = self._render(dict(o), stack)
            out[key] = rec
        return out

    def _render(self, v, stack, bucket=False, depth=0):
        p = _prim(v)
        if p is not _NOPRIM:
            return p
        if isinstance(v, np.ndarray):
            if v.dtype == object:
                return ["nd"] + [self._render(e, stack, depth=depth + 1) for e in v.tolist()]
            return "nd:" + str(v.dtype) + ":" + str(v.shape) + ":" + hashlib.sha256(np.ascontiguousarray(v).tobytes()).hexdigest()[:16]
        if isinstance(v, (list, tuple)):
            return [self._render(e, stack, depth=depth + 1) for e in v]
        if isinstance(v, (set, frozenset)):
            return sorted((self._render(e, stack, depth=depth + 1) for e in v), key=lambda e: json.dumps(e, sort_keys=True, default=str))
        if isinstance(v, dict):
            if bucket:
                # {cls: _OrderedSet} -> {clsname: sorted indices}; empty buckets ignored
                r = {}
                for cls, oo in v.items():
                    if len(oo) == 0:
                        continue
                    ids = []
                    for o in oo:
                        ids.append(self.idx(o))
                        stack.append(o)
                    r[getattr(cls, "__name__", str(cls))] = sorted(ids)
                return r
            r = {}
            for k, e in v.items():
                kk = _prim(k)
                if kk is _NOPRIM:
                    if _is_tracked(k):
                        kk = "#%d" % self.idx(k)
                        stack.append(k)
                    else:
                        kk = "key:" + type(k).__name__ + ":" + getattr(k, "__name__", "")
                r[str(kk)] = self._render(e, stack, depth=depth + 1)
            return r
        if isinstance(v, type):
            return "cls:" + v.__name__
        if _is_tracked(v):
            stack.append(v)
            return "#%d" % self.idx(v)
        if callable(v):
            return "callable"
        return "obj:" + type(v).__name__


def diff_snapshots(a, b, limit=5):
    """Human-readable list of differences between two identity snapshots."""
    out = []
    for k in sorted(set(a) | set(b)):
        if k not in a:
            out.append("new object #%d %s reachable from the argument" % (k, b[k].get("cls")))
        elif k not in b:
            out.append("object #%d %s no longer reachable from the argument" % (k, a[k].get("cls")))
        else:
            ra, rb = a[k], b[k]
            for name in sorted(set(ra) | set(rb)):
                if ra.get(name, "<absent>") != rb.get(name, "<absent>"):
                    out.append("%s#%d.%s: %s -> %s" % (ra.get("cls"), k, name, _short(ra.get(name, "<absent>")), _short(rb.get(name, "<absent>"))))
        if len(out) >= limit:
            break
    return out


def _short(x):
    s = json.dumps(x, sort_keys=True, default=str)
    return s if len(s) < 160 else s[:157] + "..."


def snap_digest(s):
    return hashlib.sha256(json.dumps(s, sort_keys=True, default=str).encode()).hexdigest()


# ----------------------------------------------------------------------------
# value fingerprint


def _ref(o):
    st = getattr(getattr(o, "start", None), "t", None)
    en = getattr(getattr(o, "end", None), "t", None)
    return [type(o).__name__, st, en, getattr(o, "id", None)]


def _vrender(v, depth=0):
    p = _prim(v)
    if p is not _NOPRIM:
        return p
    if isinstance(v, np.ndarray):
        return v.tolist() if v.dtype != object else [_vrender(e, depth + 1) for e in v.tolist()]
    if isinstance(v, (list, tuple)):
        return [_vrender(e, depth + 1) for e in v]
    if isinstance(v, (set, frozenset)):
        return sorted((_vrender(e, depth + 1) for e in v), key=lambda e: json.dumps(e, sort_keys=True, default=str))
    if isinstance(v, dict):
        return {str(_prim(k) if _prim(k) is not _NOPRIM else type(k).__name__): _vrender(e, depth + 1) for k, e in v.items()}
    if hasattr(v, "start") and hasattr(v, "end"):
        return {"ref": _ref(v)}
    if hasattr(v, "__dict__") and depth < 3 and not callable(v):
        return {"cls": type(v).__name__, "attrs": {k: _vrender(e, depth + 1) for k, e in sorted(v.__dict__.items()) if not k.startswith("__")}}
    return "obj:" + type(v).__name__


def value_fp_part(part, skip_classes=()):
    pts = []
    for tp in part._points:
        starting = []
        for cls, oo in tp.starting_objects.items():
            if cls.__name__ in skip_classes:
                continue
            for o in oo:
                attrs = {}
                for k, v in o.__dict__.items():
                    if k in ("start", "end", "_ref_attrs"):
                        continue
                    attrs[k] = _vrender(v)
                starting.append([cls.__name__, getattr(getattr(o, "end", None), "t", None), attrs])
        ending = []
        for cls, oo in tp.ending_objects.items():
            if cls.__name__ in skip_classes:
                continue
            for o in oo:
                ending.append(_ref(o))
        starting.sort(key=lambda e: json.dumps(e, sort_keys=True, default=str))
        ending.sort(key=lambda e: json.dumps(e, sort_keys=True, default=str))
        if starting or ending or not skip_classes:
            pts.append([int(tp.t), int(tp.quarter) if tp.quarter is not None else None, starting, ending, getattr(tp.prev, "t", None), getattr(tp.next, "t", None)])
    return {
        "id": part.id,
        "name": part.part_name,
        "abbr": part.part_abbreviation,
        "qd": [[int(a), int(b)] for a, b in zip(part._quarter_times, part._quarter_durations)],
        "points": pts,
    }


def value_fp(x):
    import partitura.score as S
    import partitura.performance as P

    if isinstance(x, S.Part):
        return value_fp_part(x)
    if isinstance(x, S.Score):
        return {"score": [value_fp_part(p) for p in x.parts], "meta": {k: getattr(x, k, None) for k in ("id", "title", "composer")}}
    if isinstance(x, (list, tuple)):
        return [value_fp(e) for e in x]
    if isinstance(x, P.PerformedPart):
        return {
            "ppart": x.id,
            "notes": [_vrender(dict(n) if isinstance(n, dict) else getattr(n, "pnote_dict", n)) for n in x.notes],
            "controls": _vrender(x.controls),
            "programs": _vrender(x.programs),
            "ppq": x.ppq,
            "mpq": x.mpq,
            "thr": x.sustain_pedal_threshold,
        }
    if isinstance(x, P.Performance):
        return {"performance": [value_fp(p) for p in x.performedparts]}
    return _vrender(x)


def digest(x):
    return hashlib.sha256(json.dumps(x, sort_keys=True, default=str).encode()).hexdigest()
