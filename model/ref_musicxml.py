"""Independent MusicXML interpreter (the 'peer' of C03 clause 2): divisions,
backup/forward, chords, ties, grace notes -> sounding notes in exact quarters.
Uses xml.etree (not lxml, not partitura)."""
import xml.etree.ElementTree as ET
from fractions import Fraction as F

STEP_PC = {"C": 0, "D": 2, "E": 4, "F": 5, "G": 7, "A": 9, "B": 11}


def decode(data):
    """bytes -> {part_id: {"notes": [(onset_q, dur_q, midi, tie_stop, tie_start, id)], "measures": [(start_q, end_q, number)]}}"""
    if isinstance(data, str):
        data = data.encode("utf-8")
    root = ET.fromstring(data)
    out = {}
    order = []
    for part in root.findall("part"):
        pid = part.get("id")
        order.append(pid)
        pos = F(0)
        divs = F(1)
        notes = []
        measures = []
        grace_chords = []
        for meas in part.findall("measure"):
            mstart = pos
            mmax = pos
            last_onset = pos
            for e in meas:
                if e.tag == "attributes":
                    d = e.find("divisions")
                    if d is not None and d.text:
                        divs = F(int(d.text))
                elif e.tag == "backup":
                    pos -= F(int(e.find("duration").text)) / divs
                elif e.tag == "forward":
                    pos += F(int(e.find("duration").text)) / divs
                    mmax = max(mmax, pos)
                elif e.tag == "note":
                    grace = e.find("grace") is not None
                    chord = e.find("chord") is not None
                    dur_e = e.find("duration")
                    dur = F(int(dur_e.text)) / divs if (dur_e is not None and not grace) else F(0)
                    onset = last_onset if chord else pos
                    if grace and chord:
                        # sounds together with the preceding (grace) note instead of after it
                        grace_chords.append(e.get("id"))
                    pitch = e.find("pitch")
                    if pitch is not None:
                        step = pitch.find("step").text
                        alter = pitch.find("alter")
                        octv = int(pitch.find("octave").text)
                        mp = 12 * (octv + 1) + STEP_PC[step] + (int(alter.text) if alter is not None else 0)
                        ties = set(t.get("type") for t in e.findall("tie"))
                        notes.append((onset, dur, mp, "stop" in ties, "start" in ties, e.get("id"), grace))
                    if not grace:
                        if not chord:
                            last_onset = pos
                            pos += dur
                        mmax = max(mmax, pos)
            measures.append((mstart, mmax, meas.get("number")))
            pos = mmax
        out[pid] = {"notes": notes, "measures": measures, "grace_chords": grace_chords}
    out["__order__"] = order
    return out


def sounding(notes):
    """merge ties -> sorted [(onset, dur, midi)] of non-grace notes.  A tie start
    on a note is continued by the note of the same pitch with a tie stop that
    begins where it ends - that is what the notation denotes, whatever the
    document order of the two notes."""
    items = [[onset, dur, mp, stop, start] for onset, dur, mp, stop, start, nid, grace in notes if not grace]
    used_as_cont = set()
    nxt = {}
    for i, (o, d, p, stop, start) in enumerate(items):
        if not start:
            continue
        for j, (o2, d2, p2, stop2, start2) in enumerate(items):
            if j != i and stop2 and p2 == p and o2 == o + d and j not in used_as_cont:
                nxt[i] = j
                used_as_cont.add(j)
                break
    res = []
    for i, (o, d, p, stop, start) in enumerate(items):
        if i in used_as_cont:
            continue
        end = o + d
        k = i
        while k in nxt:
            k = nxt[k]
            end = items[k][0] + items[k][1]
        res.append((o, end - o, p))
    return sorted(res)
