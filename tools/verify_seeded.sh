#!/bin/bash
# usage: verify_seeded.sh <seeded-dir-from-agent> <scratch-worktree>
# Confirms in the scratch worktree: demo passes on clean tree, fails with patch,
# test suite still has the 228 baseline passes.  On success copies the directory to
# /verif/seeded/<name>/ and adds "verified" info to meta.json.
set -u
src="$1"; wt="$2"; name=$(basename "$src")
cd "$wt" || exit 9
git checkout -q -- partitura
run() { (cd "$wt" && PYTHONPATH="$wt" timeout 300 /venv/bin/python "$src/demo.py" >/dev/null 2>&1); echo $?; }
clean=$(run)
git apply "$src/patch.diff" || { echo "$name: patch does not apply"; exit 1; }
mut=$(run)
tests=$(cd "$wt" && PYTHONPATH="$wt" timeout 1200 /venv/bin/python -m pytest -q -p no:cacheprovider --timeout=900 --continue-on-collection-errors 2>&1 | tail -1)
git checkout -q -- partitura
echo "$name: demo clean rc=$clean, with patch rc=$mut, tests: $tests"
if [ "$clean" = "0" ] && [ "$mut" != "0" ] && echo "$tests" | grep -q "233 passed"; then
  mkdir -p /verif/seeded/$name && cp "$src/patch.diff" "$src/demo.py" /verif/seeded/$name/
  /venv/bin/python - "$src/meta.json" "/verif/seeded/$name/meta.json" "$clean" "$mut" "$tests" <<'PY'
import json,sys
m=json.load(open(sys.argv[1]))
m["verified"]={"demo_clean_rc":int(sys.argv[3]),"demo_patched_rc":int(sys.argv[4]),"test_suite_with_patch":sys.argv[5],"how":"tools/verify_seeded.sh in a scratch worktree of /repo HEAD: demo.py on clean tree, git apply patch.diff, demo.py again, full pytest baseline command, checkout"}
json.dump(m,open(sys.argv[2],"w"),indent=1)
PY
  echo "$name: KEPT"
else
  echo "$name: REJECTED"
fi
