"""usage: inproc.py <Cxx> <N> [start]  -- run N cases in-process and tabulate violations (dev tool)"""
import sys, collections, traceback, time, os
sys.path.insert(0, '/verif')
os.environ.setdefault("CPJKU_PARTITURA_VERIF", "1")
from sim import runner
runner.prepare_process()
chk = runner.load_check(sys.argv[1])
N = int(sys.argv[2]); start = int(sys.argv[3]) if len(sys.argv) > 3 else 0
if hasattr(chk, "worker_setup"): chk.worker_setup()
known = runner.load_known()
viol = collections.Counter(); ex = {}; errs = 0; kn = collections.Counter()
t0 = time.time(); stats = collections.Counter(); nt = 0
for i in range(start, start + N):
    try:
        case = runner.case_for(chk, 0, i, "quick")
        r = chk.execute(case)
    except Exception:
        errs += 1
        if errs <= 3:
            print("ERR index", i); traceback.print_exc()
        continue
    stats.update(r.stats); nt += bool(r.nontrivial)
    for v in r.violations:
        v["property"] = chk.ID
        k = runner.match_known(v, known)
        if k:
            kn[k["id"]] += 1; continue
        key = (v['oracle'], v['op'], v['site'])
        viol[key] += 1
        ex.setdefault(key, (i, v['message'][:400]))
print("%.1fs for %d runs, errs=%d nontrivial=%d" % (time.time() - t0, N, errs, nt))
for k, c in kn.most_common(): print("known", c, k)
for k, c in viol.most_common(30): print(c, k, ex[k])
if "-s" in sys.argv:
    for k, v in sorted(stats.items()): print("  ", k, v)
