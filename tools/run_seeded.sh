#!/bin/bash
# Runs every kept seeded change in /verif/seeded against the quick check of its property
# (apply to /repo, run, restore) and writes /verif/seeded/RESULTS.md.
out=/verif/seeded/RESULTS.md
echo "| seeded change | property | quick check | first violation reported |" > $out.tmp
echo "|---|---|---|---|" >> $out.tmp
for d in /verif/seeded/*/; do
  name=$(basename $d); prop=${name%%-*}
  [ -f $d/patch.diff ] || continue
  res=$(/verif/tools/try_mutant.sh $d/patch.diff $prop 2>&1 | grep -E "^(violation|VIOLATION|patch|repo)" | head -2)
  if echo "$res" | grep -q "^VIOLATION"; then verdict="caught"; else verdict="MISSED"; fi
  first=$(echo "$res" | grep "^violation" | head -1 | cut -c1-160 | tr '|' '/')
  echo "| $name | $prop | $verdict | $first |" >> $out.tmp
  rm -f /verif/replays/*.json
done
mv $out.tmp $out
cat $out
