#!/bin/bash
# usage: rerun_seeded.sh <name> ...   -- re-runs the named seeded changes against the quick check of their property and
# replaces (or appends) their lines in /verif/seeded/RESULTS.md
out=/verif/seeded/RESULTS.md
for name in "$@"; do
  d=/verif/seeded/$name; prop=${name%%-*}
  [ -f $d/patch.diff ] || { echo "no such change: $name"; continue; }
  res=$(/verif/tools/try_mutant.sh $d/patch.diff $prop 2>&1 | grep -E "^(violation|VIOLATION|patch|repo)" | head -2)
  if echo "$res" | grep -q "^VIOLATION"; then verdict="caught"; else verdict="MISSED"; fi
  first=$(echo "$res" | grep "^violation" | head -1 | cut -c1-160 | tr '|' '/')
  line="| $name | $prop | $verdict | $first |"
  grep -v "^| $name |" $out > $out.tmp2
  echo "$line" >> $out.tmp2
  { head -2 $out.tmp2; tail -n +3 $out.tmp2 | sort; } > $out
  rm -f $out.tmp2 /verif/replays/*.json
  echo "$line" | cut -c1-200
done
