#!/venv/bin/python
"""Copies the verdicts of seeded/RESULTS.md (last run of tools/run_seeded.sh) into the meta.json of every seeded change."""
import json
import os
import re

root = "/verif/seeded"
rows = {}
for line in open(os.path.join(root, "RESULTS.md")):
    m = re.match(r"\| (\S+) \| (\S+) \| (\S+) \| (.*) \|$", line.strip())
    if m and m.group(1) not in ("seeded", "---"):
        rows[m.group(1)] = (m.group(3), m.group(4).strip())
for name in sorted(os.listdir(root)):
    p = os.path.join(root, name, "meta.json")
    if not os.path.exists(p) or name not in rows:
        continue
    meta = json.load(open(p))
    verdict, first = rows[name]
    meta["check_result"] = {"tier": "quick", "verdict": verdict, "first_violation": first, "how": "tools/run_seeded.sh: patch applied to a scratch worktree of /repo HEAD, ./check <property> --tier quick with VERIF_REPO pointing at it"}
    json.dump(meta, open(p, "w"), indent=1)
print(len(rows), "rows")
