#!/bin/bash
# usage: try_mutant.sh <patch.diff> <property> [extra check args]
# Applies the patch to a scratch worktree of /repo HEAD (under /tmp, removed afterwards), points the check's
# workers at it (VERIF_REPO) and runs the check.  /repo itself is not touched.
set -u
patch="$1"; prop="$2"; shift 2
wt=/tmp/wt-mut-$$
git -C /repo worktree add -q --detach "$wt" HEAD || exit 9
trap 'git -C /repo worktree remove --force "$wt" >/dev/null 2>&1' EXIT
(cd "$wt" && git apply "$patch") || { echo "patch does not apply"; exit 9; }
sf=/dev/shm/vp-stop-$$; rm -f $sf
cd /verif && VERIF_STOP_FILE=$sf VERIF_REPO="$wt" ./check "$prop" --no-gate "$@" 2>&1 | grep -E "^(VIOLATION|violation|KNOWN|HARNESS|runs=)" | head -8
rc=${PIPESTATUS[0]}; rm -f $sf; exit $rc
