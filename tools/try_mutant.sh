#!/bin/bash
# usage: try_mutant.sh <patch.diff> <property> [extra check args]
# applies the patch to /repo, runs the check, restores /repo whatever happens.
set -u
patch="$1"; prop="$2"; shift 2
cd /repo || exit 9
if [ -n "$(git status --porcelain --untracked-files=no)" ]; then echo "repo dirty, refusing"; exit 9; fi
git apply "$patch" || { echo "patch does not apply"; exit 9; }
trap 'git -C /repo checkout -- . ' EXIT
cd /verif && ./check "$prop" --no-gate "$@" 2>&1 | grep -E "^(VIOLATION|violation|KNOWN|HARNESS|runs=)" | head -8
exit ${PIPESTATUS[0]}
