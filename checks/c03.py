"""C03 - MusicXML through the storage world (DESIGN 3.5).

Writer client(s) save generated scores onto SimFS over a route (path,
caller-supplied file-like, return value), reader client(s) load them back
(path, file-like with short reads, load_score dispatch, URL peer).  The
simulator owns the file system and its faults, the routes, the raw-write
granularity, the operation history on each path, and the hash seed.

Oracles (strict in the fault-free configuration, narrowly relaxed under faults):
 R1 loaded == saved on everything the property enumerates (fp_c03)
 R2 an independent MusicXML interpreter reads exactly the abstract sounding notes
 R3 save(load(F)) == F byte for byte
 R4 bytes identical across routes
 D1 acknowledged save => durable and equal; failed save => argument and
    globals untouched, fault-free retry gives the fault-free bytes
 D2 after a crash the reader terminates; other objects/ops behave as fault-free
"""
import copy
import io
import json

from model import build, fingerprint as FP, gen, ref_musicxml
from sim import glob as G
from sim import rng as R
from sim import sched
from sim.result import Result
from sim.simfs import Fault, SimCrash, SimFS

ID = "C03"
CONFIGS = ("nofault", "fault")
TIERS = {
    "quick": {"runs": 1600, "wall": 200, "gate": 16, "run_timeout": 120},
    "thorough": {"runs": 150000, "wall": 1500, "gate": 64, "run_timeout": 120},
}
SHRINK_BUDGET = 300
RULE = (
    "each run = one generated abstract score (profile: every note inside a measure, concurrently tied notes distinct in pitch; parts, "
    "nested groups, staves, voices, unequal chords, mid-measure division changes, pickups, ties over barlines, slurs, tuplets, grace notes, "
    "directions, repeats/endings) driven through a history of save/load operations on SimFS paths over sampled routes, raw-write chunk "
    "sizes and a fault plan; non-trivial = the score has >=2 voices or a division change or a tie over a barline, or a fault fired while "
    "a write was in flight; distinct = distinct (workload-shape, route, op/fault sequence) signatures"
)
ASSUMPTIONS = [
    "equality is judged on the attributes the property enumerates; Page/System objects, doc_order, direction staff, grace type are not compared",
    "alter 0 and None, dots 0 and absent, clef octave change 0 and None are the same value",
    "no atomic-replace or torn-file detection is demanded: after a failed or crashed save nothing is asserted about the bytes left behind",
    "lxml, CPython io buffering are trusted; SimFS is the stub for the raw file layer",
]
COMPONENTS = {"real": ["partitura.io.exportmusicxml", "partitura.io.importmusicxml", "partitura.io.load_score", "partitura.score", "partitura.directions", "lxml", "CPython io.Buffered*/TextIOWrapper, zipfile sniffing"], "stub": ["raw file layer (SimFS)", "HTTP client (fake urlopen peer)", "tempfile naming", "independent MusicXML interpreter (model/ref_musicxml.py) as peer reader"]}
PROBES = ("divisions_declared_out_of_time_order", "force_note_ids", "score_edited_by_setitem", "load_returned_despite_read_fault", "fault_in_flight", "acknowledged_after_overwrite", "reader_on_torn_file", "torn_file_accepted", "short_reads", "url_route", "filelike_route", "mid_measure_divs_change", "tie_over_barline", "unequal_chord", "retry_after_failed_save", "zip_sniff")

ROUTES_W = ("path", "path", "filelike", "return")
ROUTES_R = ("path", "load_score", "filelike", "url", "path", "mxl")


# ----------------------------------------------------------------------------
# C03 fingerprint


def _sym(n):
    sd = n.symbolic_duration or {}
    return [sd.get("type"), sd.get("dots") or 0, sd.get("actual_notes"), sd.get("normal_notes")]


def fp_c03(score):
    import partitura.score as S

    out = {"parts": [], "structure": None}

    def struct(x):
        if isinstance(x, S.PartGroup):
            return {"group": [x.group_name, x.group_symbol, x.number], "children": [struct(c) for c in x.children]}
        return {"part": x.id}

    out["structure"] = [struct(x) for x in score.part_structure]
    for part in score.parts:
        p = {"id": part.id, "name": part.part_name, "abbr": part.part_abbreviation}
        # divisions as a function: drop redundant entries
        qd = []
        for t, q in part.quarter_durations():
            if not qd or qd[-1][1] != int(q):
                qd.append([int(t), int(q)])
        p["divisions"] = qd
        p["measures"] = sorted([m.start.t, m.end.t if m.end else None, m.number, m.name] for m in part.iter_all(S.Measure))
        p["timesigs"] = sorted([o.start.t, o.beats, o.beat_type] for o in part.iter_all(S.TimeSignature))
        p["keysigs"] = sorted([o.start.t, o.fifths, o.mode] for o in part.iter_all(S.KeySignature))
        p["clefs"] = sorted([o.start.t, o.staff, o.sign, o.line, o.octave_change or 0] for o in part.iter_all(S.Clef))
        notes = {}
        anon = 0
        for n in part.iter_all(S.GenericNote, include_subclasses=True):
            rec = {
                "cls": type(n).__name__,
                "start": n.start.t,
                "end": n.end.t if n.end else None,
                "voice": n.voice,
                "staff": n.staff,
                "sym": _sym(n),
                "tie_prev": getattr(n.tie_prev, "id", None) if n.tie_prev is not None else None,
                "tie_next": getattr(n.tie_next, "id", None) if n.tie_next is not None else None,
                "art": sorted(set(n.articulations or [])),
                "finger": sorted(str(t.fingering) for t in (n.technical or []) if isinstance(t, S.Fingering)),
                "stem": n.stem_direction,
                "fermata": n.fermata is not None,
            }
            if isinstance(n, (S.Note, S.UnpitchedNote)):
                rec["pitch"] = [n.step, getattr(n, "alter", None) or 0, n.octave]
            key = n.id
            if key is None:
                anon += 1
                key = "<anon%d@%d>" % (anon, n.start.t)
            if key in notes:
                key = key + "<dup>"
            notes[key] = rec
        # in-voice polyphony: a note that overlaps another note of its voice with a different span
        spans = {}
        for n in part.iter_all(S.GenericNote, include_subclasses=True):
            if not isinstance(n, S.GraceNote) and n.end is not None:
                spans.setdefault(n.voice, []).append((n.start.t, n.end.t))
        for key, rec in notes.items():
            if rec["cls"] != "GraceNote" and rec["end"] is not None:
                rec["_poly"] = any((a, b) != (rec["start"], rec["end"]) and a < rec["end"] and rec["start"] < b for a, b in spans.get(rec["voice"], []))
        p["notes"] = notes
        p["slurs"] = sorted([getattr(o.start_note, "id", None), getattr(o.end_note, "id", None)] for o in part.iter_all(S.Slur))
        p["tuplets"] = sorted([getattr(o.start_note, "id", None), getattr(o.end_note, "id", None), o.actual_notes, o.normal_notes] for o in part.iter_all(S.Tuplet))
        dirs = []
        for o in part.iter_all(S.Direction, include_subclasses=True):
            wedge = bool(getattr(o, "wedge", False))
            written = o.raw_text or o.text
            # what the words mean: for an object made through the API from the word itself the musical meaning of the
            # word, for an object that came out of the direction parser (importer) the meaning the parser gave it
            meaning = "-"
            if written in gen.WORD_MEANING and not wedge:
                meaning = o.text if o.raw_text is not None else gen.WORD_MEANING[written][1]
            dirs.append([type(o).__name__, written, o.start.t, (o.end.t if o.end else None) if wedge else "-", meaning])
        p["directions"] = sorted(dirs, key=lambda d: json.dumps(d))
        p["tempo"] = sorted([o.start.t, o.bpm, o.unit or "q"] for o in part.iter_all(S.Tempo))
        p["repeats"] = sorted([o.start.t if o.start else None, o.end.t if o.end else None] for o in part.iter_all(S.Repeat))
        p["endings"] = sorted([o.start.t if o.start else None, o.end.t if o.end else None, str(o.number)] for o in part.iter_all(S.Ending))
        p["barline_fermatas"] = sorted([o.start.t, o.ref] for o in part.iter_all(S.Fermata) if not isinstance(o.ref, S.GenericNote))
        out["parts"].append(p)
    return out


def fp_diff(a, b):
    """first differences between two fp_c03 values -> list of (site, message)"""
    out = []
    if a["structure"] != b["structure"]:
        out.append(("structure", "part/group structure %s != %s" % (a["structure"], b["structure"])))
    if len(a["parts"]) != len(b["parts"]):
        out.append(("parts", "number of parts %d != %d" % (len(a["parts"]), len(b["parts"]))))
        return out
    for pa, pb in zip(a["parts"], b["parts"]):
        for key in ("id", "name", "abbr", "divisions", "measures", "timesigs", "keysigs", "clefs", "slurs", "tuplets", "directions", "tempo", "repeats", "endings", "barline_fermatas"):
            if pa[key] != pb[key]:
                out.append((key, "part %s %s: saved %s, loaded %s" % (pa["id"], key, json.dumps(pa[key])[:300], json.dumps(pb[key])[:300])))
        na, nb = pa["notes"], pb["notes"]
        if set(na) != set(nb):
            out.append(("note.id", "part %s note ids differ: only saved %s, only loaded %s" % (pa["id"], sorted(set(na) - set(nb))[:6], sorted(set(nb) - set(na))[:6])))
        for k in sorted(set(na) & set(nb)):
            for f in na[k]:
                if f.startswith("_"):
                    continue
                if na[k][f] != nb[k].get(f):
                    site = "note." + ("onset/duration" if f in ("start", "end") else f)
                    if f == "voice" and na[k].get("_poly"):
                        site = "note.voice[in-voice-polyphony]"
                    out.append((site, "part %s note %s %s: saved %s, loaded %s" % (pa["id"], k, f, na[k][f], nb[k].get(f))))
    # one entry per site
    seen = set()
    res = []
    for s, m in out:
        if s not in seen:
            seen.add(s)
            res.append((s, m))
    return res


# ----------------------------------------------------------------------------
# generation


def tiny_long_slur(k, nm=None, slurs=True):
    """a boundary score: a phrase slur that stays open over several hundred notes, with a short slur inside it late in
    the phrase"""
    nm = k.choice((20, 40)) if nm is None else nm
    q = 4
    L = 4 * q
    notes = []
    for m in range(nm):
        for i in range(16):
            notes.append({"id": "p1n%d" % (len(notes) + 1), "kind": "note", "t": m * L + i, "e": m * L + i + 1, "voice": 1, "staff": 1, "sym": {"type": "16th", "dots": 0}, "m": m, "g": None, "step": "CDEFGAB"[(i + m) % 7], "alter": None, "octave": 4})
    n = len(notes)
    a = n - k.choice((20, 60, 100))
    part = {
        "id": "P1", "name": "Part P1", "abbr": None, "qdivs": [[0, q]], "nstaves": 1, "end": nm * L,
        "measures": [{"s": m * L, "e": (m + 1) * L, "number": m + 1, "name": str(m + 1)} for m in range(nm)],
        "timesigs": [{"t": 0, "beats": 4, "beat_type": 4}], "keysigs": [{"t": 0, "fifths": 0, "mode": "major"}],
        "clefs": [{"t": 0, "staff": 1, "sign": "G", "line": 2, "oct": 0}],
        "notes": notes, "slurs": [{"start": "p1n1", "end": "p1n%d" % n}, {"start": "p1n%d" % a, "end": "p1n%d" % (a + 6)}] if slurs else [],
        "tuplets": [], "dirs": [], "tempos": [], "repeats": [], "endings": [], "nav": [], "fermatas": [],
    }
    return {"id": None, "parts": [part], "groups": None}


def generate(seed, tier, cfg):
    st = R.Streams(seed)
    k = st.knobs
    asc = gen.gen_score(st.workload, profile="full", size=gen.pick_size(tier, st.knobs))
    if k.random() < 0.012:
        asc = tiny_long_slur(k)
    if k.random() < 0.03:
        # boundary score: meters of half notes whose bars hold a (dotted, double-dotted) breve or a long
        from checks.c19 import tiny_breve

        asc = tiny_breve(k)
    for p in asc["parts"]:
        p["nav"] = []  # navigation marks are not written by the exporter and not listed by the property
    o = st.ops
    npaths = k.choice((1, 1, 2))
    paths = ["/simfs/%s" % n for n in (["score.musicxml", "dir/other.xml"][:npaths])]
    ops = []
    n_ops = k.choice((2, 3, 4, 6))
    ops.append({"k": "save", "path": paths[0], "route": o.choice(ROUTES_W)})
    for _ in range(n_ops - 1):
        x = o.random()
        p = o.choice(paths)
        if x < 0.4:
            ops.append({"k": "save", "path": p, "route": o.choice(ROUTES_W)})
        elif x < 0.85:
            ops.append({"k": "load", "path": p, "route": o.choice(ROUTES_R)})
        else:
            ops.append({"k": "resave", "path": p})
    ops.append({"k": "load", "path": paths[0], "route": o.choice(ROUTES_R)})
    ops.append({"k": "resave", "path": paths[0]})
    faults = []
    f = st.faults
    if cfg == "fault":
        for _ in range(f.choice((1, 1, 2))):
            oi = f.randrange(0, len(ops))
            op = ops[oi]
            if op["k"] == "save":
                kind = f.choice(("F1", "F2", "F2", "F3", "F4", "F4"))
            elif op.get("route") == "url":
                kind = f.choice(("F9", "F9", "F5", "F6"))
            else:
                kind = f.choice(("F5", "F6", "F6"))
            at = f.choice((0, 0, 1, 2, 3, 5, 8, 13, 40, 200))
            err = {"F1": f.choice((28, 13, 2, 21)), "F2": f.choice((28, 5)), "F3": 28, "F4": 0, "F5": f.choice((2, 13, 24)), "F6": 5, "F9": f.choice((0, 404, -1))}[kind]
            faults.append({"kind": kind, "path": "*", "at": at if kind in ("F2", "F4", "F6") else 0, "errno": err, "op_index": oi, "frac": (round(f.random(), 3) if kind in ("F2", "F4", "F6") and f.random() < 0.5 else None)})
    return {
        "workload": asc,
        "ops": ops,
        "faults": faults,
        "knobs": {"chunk": k.choice((1, 7, 16, 512, 8192, 0)), "short_reads": k.choice((None, None, [1], [3, 1, 7], [64])), "bufsize": k.choice((-1, -1, 16, 1024)), "late_divs": k.random() < 0.3, "setitem": k.choice((None, None, None, 0, 1, 2)), "forced_ids": k.random() < 0.3},
    }


# ----------------------------------------------------------------------------
# execution


def _shape(asc):
    v = set()
    divchg = mid = tieb = uneq = False
    for p in asc["parts"]:
        ms = {m["s"] for m in p["measures"]}
        divchg |= len(p["qdivs"]) > 1
        mid |= any(t not in ms for t, q in p["qdivs"])
        byid = {n["id"]: n for n in p["notes"]}
        for n in p["notes"]:
            v.add((p["id"], n["voice"]))
            if n.get("tie_next") and byid[n["tie_next"]]["m"] != n["m"]:
                tieb = True
        on = {}
        for n in p["notes"]:
            if n["kind"] == "note":
                on.setdefault((n["voice"], n["t"]), set()).add(n["e"])
        uneq |= any(len(x) > 1 for x in on.values())
    return {"voices": len(v), "divchg": divchg, "mid": mid, "tieb": tieb, "uneq": uneq, "parts": len(asc["parts"])}


class ShortReader(io.RawIOBase):
    """caller-supplied file-like input with short reads (F7, benign)"""

    def __init__(self, data, limits):
        self.data, self.pos, self.limits, self.k = data, 0, limits, 0

    def readable(self):
        return True

    def readinto(self, b):
        n = min(len(b), len(self.data) - self.pos)
        if self.limits and n > 0:
            n = min(n, self.limits[self.k % len(self.limits)])
            self.k += 1
        b[:n] = self.data[self.pos : self.pos + n]
        self.pos += n
        return n


def off_grid_divchange(ap):
    """a divisions change at a time where no object of the part starts or ends (so the part has no time point there)"""
    times = set()
    for n in ap["notes"]:
        times.update((n["t"], n["e"]))
    for m in ap["measures"]:
        times.update((m["s"], m["e"]))
    for key in ("timesigs", "keysigs", "clefs", "tempos", "nav", "fermatas"):
        times.update(x["t"] for x in ap.get(key, []))
    for d in ap.get("dirs", []):
        times.add(d["t"])
        if d.get("e") is not None:
            times.add(d["e"])
    for key in ("repeats", "endings"):
        for x in ap.get(key, []):
            times.update((x["s"], x["e"]))
    return any(t not in times for t, q in ap["qdivs"][1:])


def execute(case, keep_log=False):
    import partitura as pt
    from partitura.io.importmusicxml import load_musicxml
    from partitura.io.exportmusicxml import save_musicxml
    import partitura.score as S

    res = Result(keep_log)
    asc = case["workload"]
    kn = case["knobs"]
    shape = _shape(asc)
    res.log.add("world", "init", {"shape": shape, "knobs": kn})
    for key, probe in (("mid", "mid_measure_divs_change"), ("tieb", "tie_over_barline"), ("uneq", "unequal_chord")):
        if shape[key]:
            res.probe(probe)
    score = build.build_score(asc, with_pages=True, set_ends=True, late_divs=bool(kn.get("late_divs")))
    if kn.get("late_divs") and any(len(p["qdivs"]) > 2 for p in asc["parts"]):
        res.probe("divisions_declared_out_of_time_order")
    if kn.get("setitem") is not None and not asc.get("groups") and len(score.parts) >= 1:
        # a Score edited through its container interface: it is created with another part in one position, and
        # the real part is put there with score[i] = part
        import copy as _copy
        import partitura.score as S_

        i = kn["setitem"] % len(score.parts)
        decoy_ap = _copy.deepcopy(asc["parts"][i])
        decoy_ap["name"] = "decoy"
        decoy_ap["notes"] = decoy_ap["notes"][:1]
        for n in decoy_ap["notes"]:
            for key in ("tie_next", "tie_prev", "grace_next", "grace_prev"):
                n.pop(key, None)
            n["kind"] = "rest"
        decoy_ap["slurs"], decoy_ap["tuplets"] = [], []
        real = list(score.parts)
        parts2 = list(real)
        parts2[i] = build.build_part(decoy_ap)
        score = S_.Score(parts2, id=asc.get("id"))
        score[i] = real[i]
        res.probe("score_edited_by_setitem")
    snapper = FP.Snapshotter()
    snap0 = snapper.snapshot(score)
    want_fp = fp_c03(score)
    # fault-free reference bytes (outside SimFS, return-value route)
    ref_bytes = save_musicxml(score)
    ref_digest = FP.digest(ref_bytes)
    res.log.add("world", "reference", {"bytes": len(ref_bytes), "digest": ref_digest[:16]})
    # R2: independent interpreter on the reference bytes
    try:
        dec = ref_musicxml.decode(ref_bytes)
        for ap in asc["parts"]:
            want = sorted((q, d, mp) for q, d, mp, _ in gen.sounding_notes(ap))
            got = ref_musicxml.sounding(dec.get(ap["id"], {"notes": []})["notes"])
            if want != got:
                miss = [x for x in want if x not in got][:3]
                extra = [x for x in got if x not in want][:3]
                res.violation("R2-peer-interpreter", "save", "part %s: an independent MusicXML reader finds other sounding notes than the score has: missing %s, unexpected %s" % (ap["id"], [(str(a), str(b), c) for a, b, c in miss], [(str(a), str(b), c) for a, b, c in extra]), site="sounding-notes" + (":divisions-change-off-grid" if off_grid_divchange(ap) else ""))
                break
            gc = dec.get(ap["id"], {}).get("grace_chords", [])
            if gc:
                # the grace notes of the generated scores follow one another (a run); none sounds together with its neighbour
                res.violation("R2-peer-interpreter", "save", "part %s: grace notes %s are written with <chord/>: the file says they sound together with the grace note before them, the score has them one after the other" % (ap["id"], gc[:4]), site="grace-chord")
                break
    except Exception as e:
        res.violation("R2-peer-interpreter", "save", "independent reader failed on the written file: %s: %s" % (type(e).__name__, e), site="parse")

    fs = SimFS(chunk=kn["chunk"], short_reads=None)
    fs.expect_transfer(len(ref_bytes), kn["bufsize"])
    g0 = None
    content = {}  # path -> "ref" (acknowledged reference content) | "unknown" | absent
    fault_by_op = {}
    for f in case["faults"]:
        fault_by_op.setdefault(f["op_index"], []).append(f)
    nontrivial = shape["voices"] >= 2 or shape["divchg"] or shape["tieb"]
    with fs:
        g0 = G.fingerprint()
        for i, op in enumerate(case["ops"]):
            fs.faults = [Fault(f["kind"], f["path"], f["at"], f["errno"], frac=f.get("frac")) for f in fault_by_op.get(i, [])]
            fs.inflight_points = []
            path = op["path"]
            outcome = None
            fired_before = dict(fs.fired)
            fired = {}
            if op["k"] == "save":
                route = op["route"]
                try:
                    if route == "path":
                        save_musicxml(score, path)
                    elif route == "filelike":
                        res.probe("filelike_route")
                        with fs.open(path, "wb", kn["bufsize"]) as fh:
                            save_musicxml(score, fh)
                    else:
                        data = save_musicxml(score)
                        with fs.open(path, "wb", kn["bufsize"]) as fh:
                            fh.write(data)
                    outcome = "ack"
                except SimCrash:
                    outcome = "crashed"
                except OSError as e:
                    outcome = "raised:%s" % e.errno
                fired = {k: v - fired_before.get(k, 0) for k, v in fs.fired.items() if v != fired_before.get(k, 0)}
                for kk, v in fired.items():
                    res.fault(kk, v)
                if fs.inflight_points:
                    res.probe("fault_in_flight")
                    nontrivial = True
                if outcome == "ack":
                    if path in content:
                        res.probe("acknowledged_after_overwrite")
                    content[path] = "ref"
                    got = fs.get(path)
                    if got != ref_bytes:
                        res.violation("R4-routes", "save", "acknowledged save over route %s stored %d bytes that differ from the fault-free reference (%d bytes)" % (route, len(got or b""), len(ref_bytes)), site=route)
                        content[path] = "unknown"
                else:
                    content[path] = "unknown"
                    # D1: argument untouched, retry works and gives the reference bytes
                    s1 = snapper.snapshot(score)
                    if s1 != snap0:
                        res.violation("D1-failed-save-mutated", "save", "a failed save (%s) changed its argument: %s" % (outcome, "; ".join(FP.diff_snapshots(snap0, s1))), site=outcome.split(":")[0])
                    fs.faults = []
                    res.probe("retry_after_failed_save")
                    # the retry goes to another path on every second occasion, so that readers
                    # also meet the bytes a failed save left behind
                    rpath = path if (i % 2 == 0) else path + ".retry.musicxml"
                    try:
                        save_musicxml(score, rpath)
                        if fs.get(rpath) != ref_bytes:
                            res.violation("D1-retry", "save", "fault-free retry after %s wrote different bytes than a fault-free world" % outcome, site=outcome.split(":")[0])
                        content[rpath] = "ref"
                    except Exception as e:
                        res.violation("D1-retry", "save", "fault-free retry after %s raised %s: %s" % (outcome, type(e).__name__, e), site=outcome.split(":")[0])
            elif op["k"] == "load":
                route = op["route"]
                state = content.get(path)
                loaded = None
                try:
                    if route == "path":
                        loaded = load_musicxml(path)
                    elif route == "load_score":
                        loaded = pt.load_score(path, force_note_ids=None)
                    elif route == "mxl":
                        # compressed container written by a peer (zipfile), sniffed by load_musicxml
                        import zipfile

                        data = fs.get(path)
                        if data is None:
                            raise FileNotFoundError(path)
                        res.probe("zip_sniff")
                        zpath = path + ".mxl"
                        with fs.open(zpath, "wb") as zf:
                            with zipfile.ZipFile(zf, "w") as z:
                                z.writestr("META-INF/container.xml", "<container/>")
                                z.writestr("score.xml", data)
                        loaded = load_musicxml(zpath)
                    elif route == "filelike":
                        data = fs.get(path)
                        if data is None:
                            raise FileNotFoundError(path)
                        lim = kn["short_reads"]
                        if lim:
                            res.probe("short_reads")
                            res.fault("F7")
                        loaded = load_musicxml(io.BufferedReader(ShortReader(data, lim), 32))
                    else:
                        res.probe("url_route")
                        url = "http://peer.example/%s" % path.split("/")[-1]
                        data = fs.get(path)
                        if data is not None:
                            fs.serve(url, data)
                        if kn["short_reads"]:
                            fs.url_short_reads = list(kn["short_reads"])
                            res.probe("short_reads")
                        loaded = pt.load_score(url, force_note_ids=None)
                    outcome = "loaded"
                except SimCrash:
                    outcome = "crashed"
                except Exception as e:
                    outcome = "raised:" + type(e).__name__
                fired = {k: v - fired_before.get(k, 0) for k, v in fs.fired.items() if v != fired_before.get(k, 0)}
                for kk, v in fired.items():
                    res.fault(kk, v)
                faulted = bool(fired)
                # an injected read error may make the load fail; if the load nevertheless returns, it must
                # return the right score ("may fail, never return wrong data") - except when the peer cut
                # the body short (F9), where other bytes arrived
                returned_despite = faulted and outcome == "loaded" and "F9" not in fired
                if returned_despite:
                    res.probe("load_returned_despite_read_fault")
                if state == "ref" and (not faulted or returned_despite):
                    if outcome != "loaded":
                        res.violation("D1-durable", "load", "an acknowledged file could not be loaded over route %s: %s" % (route, outcome), site=route)
                    else:
                        for site, msg in fp_diff(want_fp, fp_c03(loaded)):
                            res.violation("R1-roundtrip", "load", msg, site=site)
                        if not res.violations:
                            # the sounding pitch a loaded note reports is the one its spelling denotes (B# above, Cb below)
                            for p_ in loaded.parts:
                                for n_ in p_.iter_all(S.Note, include_subclasses=True):
                                    w_ = gen.midi_pitch(n_.step, n_.alter or 0, n_.octave)
                                    if int(n_.midi_pitch) != w_:
                                        res.violation("R5-pitch", "load", "loaded note %s%+d octave %d reports MIDI pitch %d, its spelling denotes %d" % (n_.step, n_.alter or 0, n_.octave, int(n_.midi_pitch), w_), site="spelling")
                                        break
                                if res.violations:
                                    break
                        if kn.get("forced_ids") and not res.violations and not faulted:
                            # a score obtained from the importer with force_note_ids=True (new ids for every note and
                            # rest) is a score like any other: saved and loaded again it keeps those ids
                            res.probe("force_note_ids")
                            try:
                                forced = load_musicxml(io.BytesIO(fs.get(path)), force_note_ids=True)
                                again = load_musicxml(io.BytesIO(save_musicxml(forced)), force_note_ids=None)
                                ids1 = [[(type(n).__name__, n.start.t, n.id) for n in sorted(p.iter_all(S.GenericNote, include_subclasses=True), key=lambda n: (n.start.t, str(n.id)))] for p in forced.parts]
                                ids2 = [[(type(n).__name__, n.start.t, n.id) for n in sorted(p.iter_all(S.GenericNote, include_subclasses=True), key=lambda n: (n.start.t, str(n.id)))] for p in again.parts]
                                if ids1 != ids2:
                                    d = next(((a, b) for pa, pb in zip(ids1, ids2) for a, b in zip(pa, pb) if a != b), None)
                                    res.violation("R1-roundtrip", "load", "a score loaded with force_note_ids=True does not keep its note ids through save and load: %s" % (d,), site="forced-ids")
                            except Exception as e:
                                import traceback

                                tb = traceback.extract_tb(e.__traceback__)
                                if not any("/partitura/" in f.filename for f in tb):
                                    raise
                                res.violation("R1-roundtrip", "load", "force_note_ids=True load / save / load raised %s: %s" % (type(e).__name__, e), site="forced-ids-raised")
                elif state == "unknown":
                    res.probe("reader_on_torn_file")
                    if outcome == "loaded":
                        res.probe("torn_file_accepted")
                elif state is None and outcome == "loaded" and not faulted:
                    res.violation("D1-durable", "load", "loading a path that was never written returned a score", site=route)
            elif op["k"] == "resave":
                # R3: load a file partitura wrote and save it again -> identical bytes
                if content.get(path) == "ref":
                    try:
                        l1 = load_musicxml(path)
                        f2 = save_musicxml(l1)
                        if f2 != ref_bytes:
                            a, b = ref_bytes.decode().splitlines(), f2.decode().splitlines()
                            d = next((j for j, (x, y) in enumerate(zip(a, b)) if x != y), min(len(a), len(b)))
                            res.violation("R3-fixpoint", "resave", "save(load(F)) != F at line %d: %r vs %r" % (d + 1, a[d][:120] if d < len(a) else None, b[d][:120] if d < len(b) else None), site=_line_site(a[d] if d < len(a) else (b[d] if d < len(b) else "")))
                        outcome = "fixpoint-checked"
                    except Exception as e:
                        if fs.fired != fired_before:
                            outcome = "faulted"  # an injected read fault hit the reload; nothing to judge
                        else:
                            res.violation("R3-fixpoint", "resave", "load/save of a file partitura wrote raised %s: %s" % (type(e).__name__, e), site="raised")
                    fired = {k: v - fired_before.get(k, 0) for k, v in fs.fired.items() if v != fired_before.get(k, 0)}
                    for kk, v in fired.items():
                        res.fault(kk, v)
                else:
                    outcome = "skip"
            g1 = G.fingerprint()
            if g1 != g0:
                d = [kk for kk in g0 if g0[kk] != g1.get(kk)]
                res.violation("O5-globals", op["k"], "process-global state changed: %s" % d, site=",".join(d))
                G.restore(g0)
            res.log.add("client", op["k"], {"op": op, "faults": fault_by_op.get(i), "outcome": outcome})
            res.sigadd(op["k"], op.get("route"), outcome, tuple(sorted(fired.items())) if op["k"] != "resave" else None)
            res.state(op["k"], outcome, tuple(sorted(content.items())))
    # final: the object used throughout is untouched
    s1 = snapper.snapshot(score)
    if s1 != snap0:
        res.violation("O3-nonmutation", "save/load", "the saved score object changed during the run: %s" % "; ".join(FP.diff_snapshots(snap0, s1)), site="score")
    res.sigadd(tuple(sorted(shape.items())), kn["chunk"])
    res.nontrivial = nontrivial
    res.log.add("world", "end", None)
    return res


def _line_site(line):
    import re

    m = re.search(r"<([a-zA-Z-]+)", line)
    return m.group(1) if m else "text"


def shrink_spec(case):
    paths = [("faults",), ("ops",)]

    def reduce_workload(c):
        asc = c["workload"]
        if asc.get("groups"):
            d = copy.deepcopy(c)
            d["workload"]["groups"] = None
            yield d
        if len(asc["parts"]) > 1 and not asc.get("groups"):
            for i in range(len(asc["parts"])):
                d = copy.deepcopy(c)
                del d["workload"]["parts"][i]
                yield d
        for pi, p in enumerate(asc["parts"]):
            for key in ("dirs", "slurs", "tuplets", "tempos", "fermatas", "repeats", "endings"):
                if p.get(key):
                    d = copy.deepcopy(c)
                    d["workload"]["parts"][pi][key] = []
                    yield d
            # drop a whole voice
            voices = sorted(set(n["voice"] for n in p["notes"]))
            if len(voices) > 1:
                for v in voices:
                    d = copy.deepcopy(c)
                    _drop_notes(d["workload"]["parts"][pi], lambda n: n["voice"] == v)
                    yield d
            # drop trailing measures
            if len(p["measures"]) > 1 and len(asc["parts"]) == 1:
                d = copy.deepcopy(c)
                pp = d["workload"]["parts"][pi]
                last = pp["measures"].pop()
                _drop_notes(pp, lambda n: n["t"] >= last["s"])
                for key in ("timesigs", "keysigs", "clefs", "dirs", "tempos"):
                    pp[key] = [x for x in pp[key] if x["t"] < last["s"]]
                pp["qdivs"] = [x for x in pp["qdivs"] if x[0] < last["s"]]
                pp["repeats"] = [x for x in pp["repeats"] if x["e"] <= last["s"]]
                pp["endings"] = [x for x in pp["endings"] if x["e"] <= last["s"]]
                pp["end"] = last["s"]
                yield d
            # drop single notes (not tie/grace linked)
            for n in p["notes"]:
                if not any(n.get(k) for k in ("tie_next", "tie_prev", "grace_next", "grace_prev")):
                    d = copy.deepcopy(c)
                    _drop_notes(d["workload"]["parts"][pi], lambda x, nid=n["id"]: x["id"] == nid)
                    yield d
            # strip decorations
            if any(n.get("art") or n.get("finger") or n.get("stem") or n.get("fermata") for n in p["notes"]):
                d = copy.deepcopy(c)
                for n in d["workload"]["parts"][pi]["notes"]:
                    for kk in ("art", "finger", "stem", "fermata"):
                        n.pop(kk, None)
                yield d

    return paths, [reduce_workload]


def _drop_notes(p, pred):
    gone = set(n["id"] for n in p["notes"] if pred(n))
    # removing a note removes everything hanging on it
    changed = True
    while changed:
        changed = False
        for n in p["notes"]:
            if n["id"] in gone:
                continue
            for k in ("grace_next",):
                if n.get(k) in gone:
                    gone.add(n["id"])
                    changed = True
    p["notes"] = [n for n in p["notes"] if n["id"] not in gone]
    for n in p["notes"]:
        for k in ("tie_next", "tie_prev", "grace_prev", "grace_next"):
            if n.get(k) in gone:
                n[k] = None
    p["slurs"] = [s for s in p["slurs"] if s["start"] not in gone and s["end"] not in gone]
    p["tuplets"] = [s for s in p["tuplets"] if s["start"] not in gone and s["end"] not in gone]


def case_size(case):
    return {"ops": len(case["ops"]), "faults": len(case["faults"]), "parts": len(case["workload"]["parts"]), "notes": sum(len(p["notes"]) for p in case["workload"]["parts"])}
