"""C08 - match files through the storage world (DESIGN 3.8).

abstract single-part score + generated performance + generated partial
alignment -> save_match(...) over SimFS under a fault plan -> the stored text is
optionally disturbed by benign channel faults (a stored line duplicated, blank
lines, conflicting deletion/insertion lines for ids that also have a match) ->
load_match(path, create_score=True).  Also: the fixture match files of every
historical version are copied onto SimFS and loaded undisturbed and disturbed.
The simulator owns the file system, the faults, the line-level disturbances and
the save/load history."""
import copy
import os
import random
from fractions import Fraction as F

from model import build, fingerprint as FP, gen
from sim import glob as G
from sim import rng as R
from sim.result import Result
from sim.simfs import Fault, SimCrash, SimFS
from checks.c04 import Timeout, with_timeout

ID = "C08"
CONFIGS = ("roundtrip", "roundtrip+fault", "fixture")
TIERS = {
    "quick": {"runs": 1200, "wall": 240, "gate": 12, "run_timeout": 180},
    "thorough": {"runs": 60000, "wall": 1500, "gate": 48, "run_timeout": 180},
}
SHRINK_BUDGET = 250
RULE = (
    "each run = one generated single-part score (one divisions value, complete final measure; pickups, time-signature changes, ties, "
    "grace notes, chords, voices, staves), a generated performance with pedal streams and a partial alignment mixing matches, deletions, "
    "insertions and ornaments, saved with sampled ppq/mpq through a save/disturb/load history on SimFS; or one fixture match file loaded "
    "undisturbed and with duplicated/blank lines; non-trivial = the alignment mixes >=2 entry kinds, or a line was duplicated, or a fault "
    "fired in flight; distinct = distinct (shape, alignment mix, disturbance/fault sequence) signatures"
)
ASSUMPTIONS = [
    "score notes are compared by id on onset/duration in beats (through the library's own beat maps of the saved and the loaded part), spelling, voice, staff, and the articulations the format supports (staccato, accent)",
    "performed times are compared as ticks (nearest tick, either neighbour at .5) and as the seconds those ticks denote under the file's clock units/rate",
    "exact duplicates of any line and blank lines are benign; a deletion/insertion line whose id also occurs in a match line is dropped as documented",
    "nothing is asserted about the bytes a failed or crashed save leaves behind",
]
COMPONENTS = {"real": ["partitura.io.exportmatch", "partitura.io.importmatch", "partitura.io.matchfile_base / matchlines_v0 / matchlines_v1 / matchfile_utils", "musicanalysis.performance_codec (time maps, matched notes)", "score.add_measures/tie_notes/find_tuplets"], "stub": ["raw file layer (SimFS)", "line-level channel disturbances applied by the harness between writer and reader"]}
PROBES = ("durations_as_sums", "beat_unit_dialect", "second_generation", "controls_from_midi_file", "second_generation_after_edit", "auto_unfold", "line_duplicated", "blank_lines", "conflicting_deletion", "conflicting_insertion", "ornament_entry", "deletion_entry", "insertion_entry", "pickup", "timesig_change", "ties", "grace", "pedal_lines", "fault_in_flight", "fixture_v0", "fixture_v1", "reader_on_torn_file")

FIXTURE_DIRS = ("/repo/tests/data/match",)


# ----------------------------------------------------------------------------
# generation


def gen_alignment(asc, seed):
    rng = random.Random(seed)
    ap = asc["parts"][0]
    notes = []
    align = []
    k = 0
    heads = sorted(gen.sounding_notes(ap), key=lambda x: (x[0], x[2]))
    # grace notes are score notes as well
    grace = [(gen.quarter_pos(ap, n["t"]), 0, gen.midi_pitch(n["step"], n["alter"], n["octave"]), n["id"]) for n in ap["notes"] if n["kind"] == "grace"]
    for q, d, mp, nid in sorted(heads + grace, key=lambda x: (x[0], x[2])):
        on = 1.0 + float(q) * 0.5 + rng.choice((0.0, 0.0, rng.uniform(-0.03, 0.03)))
        off = on + max(0.02, float(d) * 0.45)
        if rng.random() < 0.06:
            # a key released at the moment it is struck (or so soon after that both events share a tick)
            off = on + rng.choice((0.0, 0.0005, 0.001))
        x = rng.random()
        if x < 0.12:
            align.append({"label": "deletion", "score_id": nid})
            continue
        pid = "n%d" % k
        k += 1
        notes.append({"id": pid, "midi_pitch": mp, "note_on": on, "note_off": off, "velocity": rng.randrange(10, 120), "track": 0, "channel": 1})
        align.append({"label": "match", "score_id": nid, "performance_id": pid})
        if rng.random() < 0.06:
            pid2 = "n%d" % k
            k += 1
            notes.append({"id": pid2, "midi_pitch": min(108, mp + 2), "note_on": on + 0.01, "note_off": on + 0.05, "velocity": 40, "track": 0, "channel": 1})
            align.append({"label": "ornament", "score_id": nid, "performance_id": pid2, "type": rng.choice(("trill", "mordent", "generic_ornament"))})
    for _ in range(rng.choice((0, 0, 1, 2))):
        pid = "n%d" % k
        k += 1
        t = rng.uniform(0.2, 6.0)
        notes.append({"id": pid, "midi_pitch": rng.randrange(30, 90), "note_on": t, "note_off": t + 0.2, "velocity": 30, "track": 0, "channel": 1})
        align.append({"label": "insertion", "performance_id": pid})
    controls = []
    for i in range(rng.choice((0, 0, 2, 5))):
        controls.append({"type": "sustain_pedal", "number": 64, "time": round(0.3 + i * 0.6, 3), "value": rng.choice((0, 127, 64, 20)), "track": 0, "channel": 1})
    if controls and rng.random() < 0.4:
        # fast pedalling: several events of one pedal at one moment (their order is part of the stream), and a stream
        # that is not listed in time order (e.g. the events of two recordings one after the other)
        t0 = controls[-1]["time"]
        for v in rng.sample((10, 30, 90, 127, 0, 64), 3):
            controls.append({"type": "sustain_pedal", "number": 64, "time": t0, "value": v, "track": 0, "channel": 1})
        controls.append({"type": "sustain_pedal", "number": 64, "time": 0.1, "value": 55, "track": 0, "channel": 1})
    for i in range(rng.choice((0, 0, 1, 3))):
        controls.append({"type": "soft_pedal", "number": 67, "time": round(0.5 + i * 0.9, 3), "value": rng.choice((0, 127)), "track": 0, "channel": 1})
    return notes, controls, align


def tiny_fine(k):
    """a boundary score: 256 divisions per quarter (the finest grid whose positions the format writes as exact fractions
    of a whole note, denominator 1024) with notes that start and end on odd divisions"""
    cuts = sorted(set([0, 1024] + [k.choice((1, 255, 257, 511, 513, 767, 1023, 256, 768)) for _ in range(k.choice((2, 3, 4)))]))
    notes = []
    for i, (a, b) in enumerate(zip(cuts, cuts[1:])):
        notes.append({"id": "p1n%d" % (i + 1), "kind": "note", "t": a, "e": b, "voice": 1, "staff": 1, "sym": None, "m": 0, "g": None, "step": "CDEFGAB"[i % 7], "alter": None, "octave": 4})
    part = {
        "id": "P1", "name": "Part P1", "abbr": None, "qdivs": [[0, 256]], "nstaves": 1, "end": 1024,
        "measures": [{"s": 0, "e": 1024, "number": 1, "name": "1"}],
        "timesigs": [{"t": 0, "beats": 4, "beat_type": 4}], "keysigs": [{"t": 0, "fifths": 0, "mode": "major"}],
        "clefs": [{"t": 0, "staff": 1, "sign": "G", "line": 2, "oct": 0}],
        "notes": notes, "slurs": [], "tuplets": [], "dirs": [], "tempos": [], "repeats": [], "endings": [], "nav": [], "fermatas": [],
    }
    return {"id": None, "parts": [part], "groups": None}


def tiny_hemiola(k):
    """a boundary score: a compound meter whose beat (an eighth) is not a whole number of divisions (3 or 5 per quarter)
    with quarter-based rhythms only, and voices numbered 10 and above (a third staff of an organ part)"""
    beats = k.choice((6, 6, 12))
    q = k.choice((3, 5))
    L = beats * q // 2  # measure length in divisions (6/8 = 3 quarters)
    nm = k.choice((2, 3))
    voices = k.choice(((1,), (10,), (1, 12), (9, 10, 11)))
    skip_first = k.random() < 0.6
    notes = []
    for m in range(nm):
        for vi, v in enumerate(voices):
            for b in range(beats // 2):
                if b == 0 and m >= 1 and skip_first:
                    continue  # the bar begins with a silence: its first note is not on beat 1
                notes.append({"id": "p1n%d" % (len(notes) + 1), "kind": "note", "t": m * L + b * q, "e": m * L + (b + 1) * q, "voice": v, "staff": 1, "sym": {"type": "quarter", "dots": 0}, "m": m, "g": None, "step": "CDEFGAB"[(b + 2 * vi) % 7], "alter": None, "octave": 3 + vi})
    part = {
        "id": "P1", "name": "Part P1", "abbr": None, "qdivs": [[0, q]], "nstaves": 1, "end": nm * L,
        "measures": [{"s": m * L, "e": (m + 1) * L, "number": m + 1, "name": str(m + 1)} for m in range(nm)],
        "timesigs": [{"t": 0, "beats": beats, "beat_type": 8}], "keysigs": [{"t": 0, "fifths": -7 if q == 5 else 7, "mode": "major"}],
        "clefs": [{"t": 0, "staff": 1, "sign": "G", "line": 2, "oct": 0}],
        "notes": notes, "slurs": [], "tuplets": [], "dirs": [], "tempos": [], "repeats": [], "endings": [], "nav": [], "fermatas": [],
    }
    return {"id": None, "parts": [part], "groups": None}


def tiny_pickup_half(k):
    """a boundary score: an upbeat in a meter of half notes (2/2 or 3/2), one or two full bars, then a change to a
    longer bar (3/2, 5/4, 6/4, 9/8) - the positions of the signatures are then neither at beat 0 nor in quarters"""
    first = k.choice(((2, 2), (2, 2), (3, 2)))
    later = k.choice([x for x in ((3, 2), (5, 4), (6, 4), (9, 8)) if x[0] * 4 / x[1] > first[0] * 4 / first[1]] or [(9, 2)])
    q = 2
    up = k.choice((1, 2)) * q  # one quarter or one half
    n1 = k.choice((1, 2))
    lens = [up] + [first[0] * 4 * q // first[1]] * n1 + [later[0] * 4 * q // later[1]] * 2
    measures, notes, t = [], [], 0
    for m, L in enumerate(lens):
        measures.append({"s": t, "e": t + L, "number": m + 1, "name": str(m)})
        pos = t
        while pos < t + L:
            d = min(k.choice((q, q, 2 * q)), t + L - pos)
            if (t + L - pos) % q:
                d = t + L - pos if t + L - pos < q else d
            notes.append({"id": "p1n%d" % (len(notes) + 1), "kind": "note", "t": pos, "e": pos + d, "voice": 1, "staff": 1, "sym": None, "m": m, "g": None, "step": "CDEFGAB"[len(notes) % 7], "alter": None, "octave": 4})
            pos += d
        t += L
    part = {
        "id": "P1", "name": "Part P1", "abbr": None, "qdivs": [[0, q]], "nstaves": 1, "end": t,
        "measures": measures,
        "timesigs": [{"t": 0, "beats": first[0], "beat_type": first[1]}, {"t": measures[1 + n1]["s"], "beats": later[0], "beat_type": later[1]}],
        "keysigs": [{"t": 0, "fifths": 0, "mode": "major"}],
        "clefs": [{"t": 0, "staff": 1, "sign": "G", "line": 2, "oct": 0}],
        "notes": notes, "slurs": [], "tuplets": [], "dirs": [], "tempos": [], "repeats": [], "endings": [], "nav": [], "fermatas": [],
    }
    return {"id": None, "parts": [part], "groups": None}


def tiny_thousand_bars(k):
    """a boundary score: a movement of more than 999 bars (one note a bar): bar numbers of four digits, and with
    the longer variant a file of more than 256 KiB"""
    nm = k.choice((1003, 1010))
    per_bar = k.choice((1, 3))
    q = 1 if per_bar == 1 else 3
    L = 2 * q
    notes = []
    for m in range(nm):
        for i in range(per_bar):
            d = L // per_bar
            notes.append({"id": "p1n%d" % (len(notes) + 1), "kind": "note", "t": m * L + i * d, "e": m * L + (i + 1) * d, "voice": 1, "staff": 1, "sym": None, "m": m, "g": None, "step": "CDEFGAB"[(m + i) % 7], "alter": None, "octave": 4})
    part = {
        "id": "P1", "name": "Part P1", "abbr": None, "qdivs": [[0, q]], "nstaves": 1, "end": nm * L,
        "measures": [{"s": m * L, "e": (m + 1) * L, "number": m + 1, "name": str(m + 1)} for m in range(nm)],
        "timesigs": [{"t": 0, "beats": 2, "beat_type": 4}], "keysigs": [{"t": 0, "fifths": 0, "mode": "major"}],
        "clefs": [{"t": 0, "staff": 1, "sign": "G", "line": 2, "oct": 0}],
        "notes": notes, "slurs": [], "tuplets": [], "dirs": [], "tempos": [], "repeats": [], "endings": [], "nav": [], "fermatas": [],
    }
    return {"id": None, "parts": [part], "groups": None}


def generate(seed, tier, cfg):
    st = R.Streams(seed)
    k, o, f = st.knobs, st.ops, st.faults
    if cfg == "fixture":
        return {"mode": "fixture", "pick": k.randrange(0, 1000), "disturb": {"dup": [o.randrange(0, 10**6) for _ in range(k.choice((0, 1, 3)))], "blank": [o.randrange(0, 10**6) for _ in range(k.choice((0, 1, 2)))]}, "knobs": {"chunk": k.choice((0, 7, 64))}, "ops": [], "faults": []}
    asc = gen.gen_score(st.workload, profile="match", size=gen.pick_size(tier, st.knobs))
    x = k.random()
    if x < 0.05:
        asc = tiny_fine(k)
    elif x < 0.09:
        asc = tiny_hemiola(k)
    elif x < 0.13:
        asc = tiny_pickup_half(k)
    elif x < 0.142:
        asc = tiny_thousand_bars(k)
    # the format stores no measure lengths: what follows the last score note cannot be known, so the
    # final measure must hold a pitched note that ends with it (precondition "complete final measure")
    ap = asc["parts"][0]
    last = len(ap["measures"]) - 1
    lm = ap["measures"][last]
    if not any(n["kind"] == "note" and n["m"] == last and n["e"] == lm["e"] for n in ap["notes"]):
        cands = [n for n in ap["notes"] if n["m"] == last and n["kind"] == "rest" and n["e"] == lm["e"]]
        if cands:
            cands[0].update({"kind": "note", "step": "C", "alter": None, "octave": 2})
        else:
            ap["notes"].append({"id": "p1last", "kind": "note", "t": lm["s"], "e": lm["e"], "voice": 1, "staff": 1, "sym": None, "m": last, "g": None, "step": "C", "alter": None, "octave": 2})
    ops = [{"k": "save"}]
    for _ in range(k.choice((1, 2, 3))):
        x = o.random()
        if x < 0.2:
            ops.append({"k": "save"})
        elif x < 0.5:
            ops.append({"k": "disturb", "dup": [o.randrange(0, 10**6) for _ in range(o.choice((1, 2, 4)))], "blank": [o.randrange(0, 10**6) for _ in range(o.choice((0, 1, 2)))], "conflict": o.choice((None, None, "deletion", "insertion")), "sums": o.random() < 0.4, "beat_dialect": o.random() < 0.25})
        else:
            ops.append({"k": "load"})
    ops.append({"k": "load"})
    faults = []
    if cfg == "roundtrip+fault":
        for _ in range(f.choice((1, 1, 2))):
            oi = f.randrange(0, len(ops))
            if ops[oi]["k"] == "disturb":
                continue
            kind = f.choice(("F1", "F2", "F2", "F3", "F4", "F4")) if ops[oi]["k"] == "save" else f.choice(("F5", "F6"))
            err = {"F1": f.choice((28, 13)), "F2": f.choice((28, 5)), "F3": 28, "F4": 0, "F5": f.choice((2, 13)), "F6": 5}[kind]
            faults.append({"kind": kind, "path": "*", "at": f.choice((0, 0, 1, 2, 3)) if kind in ("F2", "F4", "F6") else 0, "errno": err, "op_index": oi, "frac": (round(f.random(), 3) if kind in ("F2", "F4", "F6") and f.random() < 0.5 else None)})
    if k.random() < 0.4:
        same = k.random() < 0.4
        ops.append({"k": "regen", "ppq": "same" if same else k.choice((480, 960, 100, 96, 384)), "mpq": "same" if same else k.choice((500000, 600000, 454545, 750000)), "shift": k.choice((0.0, 0.25, 1.5, 0.013)) if same or k.random() < 0.3 else 0.0, "midi_controls": k.choice((None, None, 480, 96, 960))})
    return {"mode": "roundtrip", "workload": asc, "perf_seed": st.workload.randrange(1 << 30), "ops": ops, "faults": faults, "knobs": {"ppq": k.choice((480, 480, 960, 100, 96)), "mpq": k.choice((500000, 500000, 600000, 454545)), "chunk": k.choice((0, 0, 7, 64, 1)), "auto_unfold": k.random() < 0.3}}


# ----------------------------------------------------------------------------
# comparison


def canon_alignment(al):
    out = []
    for a in al:
        # entries are identified by label and ids (the statement says "with the same ids"; the ornament type
        # is written as an attribute list and comes back as one)
        out.append((a["label"], str(a.get("score_id")) if "score_id" in a else None, str(a.get("performance_id")) if "performance_id" in a else None))
    return sorted(out, key=repr)


def tick_ok(sec, tick, ppq, mpq):
    x = 1e6 * ppq * sec / mpq
    return abs(tick - x) <= 0.5 + 1e-6


def compare(res, opname, want, got):
    """want/got: dicts produced by describe()"""
    if got["alignment"] != want["alignment"]:
        a, b = set(want["alignment"]), set(got["alignment"])
        res.violation("A1-alignment", opname, "alignment differs: only written %s, only loaded %s" % (sorted(a - b, key=repr)[:4], sorted(b - a, key=repr)[:4]), site="entries" if len(a - b) + len(b - a) else "multiplicity")
    if got.get("pdups") and not want.get("pdups"):
        res.violation("A5-no-duplicates", opname, "performed notes %s occur more than once after loading" % got["pdups"][:5], site="performed")
    if got.get("sdups") and not want.get("sdups"):
        res.violation("A5-no-duplicates", opname, "score notes %s occur more than once after loading (a note line was duplicated)" % got["sdups"][:5], site="score")
    ppq, mpq = want["ppq"], want["mpq"]
    if (got["ppq"], got["mpq"]) != (ppq, mpq):
        res.violation("A2-performance", opname, "clock units/rate loaded (%s, %s), written (%s, %s)" % (got["ppq"], got["mpq"], ppq, mpq), site="clock")
        return
    if sorted(got["pnotes"]) != sorted(want["pnotes"]):
        res.violation("A2-performance", opname, "performed note ids differ: only written %s, only loaded %s" % (sorted(set(want["pnotes"]) - set(got["pnotes"]))[:5], sorted(set(got["pnotes"]) - set(want["pnotes"]))[:5]), site="ids")
    else:
        for pid, w in want["pnotes"].items():
            g = got["pnotes"][pid]
            if (g["pitch"], g["velocity"]) != (w["pitch"], w["velocity"]):
                res.violation("A2-performance", opname, "performed note %s pitch/velocity loaded %s, written %s" % (pid, (g["pitch"], g["velocity"]), (w["pitch"], w["velocity"])), site="pitch/velocity")
                break
            for key in ("on", "off"):
                if g[key + "_tick"] is None or not tick_ok(w[key], g[key + "_tick"], ppq, mpq):
                    res.violation("A2-performance", opname, "performed note %s %s: written %s s, loaded tick %s (ppq %s mpq %s): not the nearest tick" % (pid, key, w[key], g[key + "_tick"], ppq, mpq), site="ticks")
                    return
                back = g[key + "_tick"] * mpq / (1e6 * ppq)
                if abs(g[key] - back) > 1e-9 * max(1.0, back):
                    res.violation("A2-performance", opname, "performed note %s %s: loaded %s s, its tick %s denotes %s s" % (pid, key, g[key], g[key + "_tick"], back), site="seconds")
                    return
    for kind in ("sustain", "soft"):
        # events in time order; events of one tick keep the order in which they were given (a stable sort by time)
        wv = sorted(((int(round(1e6 * ppq * t / mpq)), v) for t, v in want[kind]), key=lambda x: x[0])
        gv = sorted(((int(round(1e6 * ppq * t / mpq)), v) for t, v in got[kind]), key=lambda x: x[0])
        if wv != gv:
            # exact duplicates of one pedal line are one event
            def dedup(seq):
                out = []
                for x in seq:
                    if x not in out:
                        out.append(x)
                return out

            if dedup(wv) != dedup(gv):
                res.violation("A2-performance", opname, "%s pedal events loaded %s, written %s (ticks, value)" % (kind, gv[:6], wv[:6]), site=kind)
    if want.get("snotes") is not None and got.get("snotes") is not None:
        ws, gs = want["snotes"], got["snotes"]
        if sorted(ws) != sorted(gs):
            res.violation("A3-score", opname, "score note ids differ: only written %s, only loaded %s" % (sorted(set(ws) - set(gs))[:5], sorted(set(gs) - set(ws))[:5]), site="ids")
        else:
            for nid in sorted(ws):
                w, g = ws[nid], gs[nid]
                for key, tol in (("onset_beat", 1e-4), ("duration_beat", 1e-4)):
                    if abs(w[key] - g[key]) > tol:
                        res.violation("A3-score", opname, "score note %s %s: written %s, loaded %s (time signatures %s)" % (nid, key, w[key], g[key], want["timesigs"]), site=key)
                        break
                else:
                    for key in ("spelling", "voice", "staff", "art"):
                        if w[key] != g[key]:
                            res.violation("A3-score", opname, "score note %s %s: written %s, loaded %s" % (nid, key, w[key], g[key]), site=key)
                            break
                if any(v["oracle"] == "A3-score" for v in res.violations):
                    break
        if not any(v["oracle"] == "A3-score" for v in res.violations):
            for key in ("measures", "timesigs", "keysigs"):
                if want[key] != got[key]:
                    res.violation("A4-structure", opname, "%s (in beats) loaded %s, written %s" % (key, got[key][:8], want[key][:8]), site=key)


def describe(perf_or_pp, alignment, part, ppq=None, mpq=None):
    import numpy as np
    import partitura.score as S

    pp = perf_or_pp.performedparts[0] if hasattr(perf_or_pp, "performedparts") else perf_or_pp
    d = {"alignment": canon_alignment(alignment), "ppq": ppq if ppq is not None else pp.ppq, "mpq": mpq if mpq is not None else pp.mpq}
    ids = [str(n["id"]) for n in pp.notes]
    d["pdups"] = sorted(set(i for i in ids if ids.count(i) > 1))
    d["pnotes"] = {str(n["id"]): {"pitch": int(n["midi_pitch"]), "velocity": int(n["velocity"]), "on": float(n["note_on"]), "off": float(n["note_off"]), "on_tick": n.get("note_on_tick"), "off_tick": n.get("note_off_tick")} for n in pp.notes}
    d["sustain"] = [(float(c["time"]), int(c["value"])) for c in pp.controls if c.get("number") == 64]
    d["soft"] = [(float(c["time"]), int(c["value"])) for c in pp.controls if c.get("number") == 67]
    d["snotes"] = None
    if part is not None:
        bm = part.beat_map
        sn = {}
        sids = [str(n.id) for n in part.iter_all(S.Note, include_subclasses=True) if n.tie_prev is None]
        d["sdups"] = sorted(set(i for i in sids if sids.count(i) > 1))
        for n in part.iter_all(S.Note, include_subclasses=True):
            if n.tie_prev is not None:
                continue
            on = float(bm(n.start.t))
            off = float(bm(n.start.t + n.duration_tied))
            sn[str(n.id)] = {"onset_beat": on, "duration_beat": off - on, "spelling": (n.step, n.alter or 0, n.octave), "voice": n.voice, "staff": n.staff, "art": sorted(set(n.articulations or []) & {"staccato", "accent"})}
        d["snotes"] = sn
        d["measures"] = sorted(round(float(bm(m.start.t)), 4) for m in part.iter_all(S.Measure))
        d["timesigs"] = sorted((round(float(bm(o.start.t)), 4), o.beats, o.beat_type) for o in part.iter_all(S.TimeSignature))
        d["keysigs"] = sorted((round(float(bm(o.start.t)), 4), o.fifths, o.mode) for o in part.iter_all(S.KeySignature))
    return d


# ----------------------------------------------------------------------------
# channel disturbances (benign)


def disturb(text, spec, res, align):
    lines = text.split("\n")
    body = [i for i, l in enumerate(lines) if l.strip()]
    if not body:
        return text
    for x in spec.get("dup", []):
        i = body[x % len(body)]
        lines.insert(i + 1 if x % 2 else len(lines) - 1, lines[i])
        res.probe("line_duplicated")
        body = [j for j, l in enumerate(lines) if l.strip()]
    for x in spec.get("blank", []):
        lines.insert(1 + x % len(lines), "")  # never before the version header, which must stay the first line
        res.probe("blank_lines")
    if spec.get("sums"):
        # the same durations in the other notation of the format: a sum of note values (5/16 = 1/4+1/16), as data sets
        # made with other tools have it
        import re as _re

        def as_sum(m_):
            a, b = int(m_.group(2)), int(m_.group(3))
            terms = []
            bit = 1
            while bit <= a:
                if a & bit:
                    terms.append(F(bit, b))
                bit <<= 1
            if len(terms) < 2:
                return m_.group(0)
            res.probe("durations_as_sums")
            return m_.group(1) + "+".join("%d/%d" % (t.numerator, t.denominator) for t in sorted(terms, reverse=True)) + m_.group(4)

        for i, l in enumerate(lines):
            if l.startswith("snote("):
                lines[i] = _re.sub(r"^(snote\([^,]+,\[[^\]]*\],-?\d+,[^,]+,[^,]+,)([0-9]+)/([0-9]+)(,)", as_sum, l)
    if spec.get("beat_dialect"):
        # the other dialect of the format (older data sets): Offset and Duration count beats of the bar's time signature
        # instead of whole notes.  Loaded with offset_duration_whole=False the file says the same as before
        import re as _re

        tss = sorted((int(m_.group(2)), int(m_.group(1))) for m_ in _re.finditer(r"scoreprop\(timeSignature,[0-9]+/([0-9]+),(-?[0-9]+):", "\n".join(lines)))

        def in_beats(txt_, bt):
            out_ = []
            for term in txt_.split("+"):
                a, _, b = term.partition("/")
                v = F(int(a), int(b or 1)) * bt
                out_.append("%d" % v.numerator if v.denominator == 1 else "%d/%d" % (v.numerator, v.denominator))
            return "+".join(out_)

        if tss:
            for i, l in enumerate(lines):
                m_ = _re.match(r"^(snote\([^,]+,\[[^\]]*\],-?[0-9]+,)(-?[0-9]+)(:[0-9]+,)([0-9/+]+),([0-9/+]+)(,.*)$", l)
                if not m_:
                    continue
                bar = int(m_.group(2))
                bt = tss[0][1]
                for b_, t_ in tss:
                    if b_ <= bar:
                        bt = t_
                lines[i] = m_.group(1) + m_.group(2) + m_.group(3) + in_beats(m_.group(4), bt) + "," + in_beats(m_.group(5), bt) + m_.group(6)
            res.probe("beat_unit_dialect")
    c = spec.get("conflict")
    if c == "deletion":
        # a deletion line for a score note that also has a match: take the snote of a match line
        for l in lines:
            if l.startswith("snote(") and ")-note(" in l:
                lines.append(l.split(")-note(")[0] + ")-deletion.")
                res.probe("conflicting_deletion")
                break
    elif c == "insertion":
        for l in lines:
            if l.startswith("snote(") and ")-note(" in l:
                lines.append("insertion-note(" + l.split(")-note(")[1])
                res.probe("conflicting_insertion")
                break
    return "\n".join(lines)


# ----------------------------------------------------------------------------
# execution


def fixture_files():
    out = []
    for d in FIXTURE_DIRS:
        for fn in sorted(os.listdir(d)):
            if fn.endswith(".match"):
                out.append(os.path.join(d, fn))
    return out


def run_fixture(case, res):
    from partitura.io.importmatch import load_match

    files = fixture_files()
    src = files[case["pick"] % len(files)]
    with open(src, "rb") as f:
        data = f.read()
    res.log.add("world", "init", {"mode": "fixture", "file": os.path.basename(src), "bytes": len(data)})
    fs = SimFS(chunk=case["knobs"]["chunk"])
    fs.put("/simfs/fx.match", data)
    try:
        text = data.decode("utf-8")
    except UnicodeDecodeError:
        res.log.add("world", "skip", "not utf-8")
        return
    first = text.split("\n", 1)[0]
    res.probe("fixture_v1" if "1.0.0" in first else "fixture_v0")
    with fs:
        g0 = G.fingerprint()
        try:
            p1, a1, s1 = load_match("/simfs/fx.match", create_score=True)
        except Exception as e:
            res.log.add("client", "load", "baseline cannot load this fixture: %s" % type(e).__name__)
            res.count("fixture_unloadable")
            return
        d1 = describe(p1, a1, s1.parts[0])
        fs.put("/simfs/fx2.match", disturb(text, case["disturb"], res, a1).encode("utf-8"))
        try:
            p2, a2, s2 = load_match("/simfs/fx2.match", create_score=True)
        except Exception as e:
            res.violation("B1-benign-disturbance", "load", "a fixture with duplicated/blank lines can no longer be loaded: %s: %s" % (type(e).__name__, e), site="raised")
            return
        d2 = describe(p2, a2, s2.parts[0])
        n0 = len(res.violations)
        compare(res, "load", d1, d2)
        for v in res.violations[n0:]:
            v["oracle"] = "B1-benign-disturbance"
        p3, a3, s3 = load_match("/simfs/fx.match", create_score=True)
        if FP.digest(describe(p3, a3, s3.parts[0])) != FP.digest(d1):
            res.violation("B2-repeatable", "load", "loading the same fixture twice gave different results", site="fixture")
        if G.fingerprint() != g0:
            res.violation("O5-globals", "load", "process-global state changed", site="globals")
    res.sigadd("fixture", os.path.basename(src), len(case["disturb"]["dup"]), len(case["disturb"]["blank"]))
    res.nontrivial = bool(case["disturb"]["dup"] or case["disturb"]["blank"])


def execute(case, keep_log=False):
    res = Result(keep_log)
    if case["mode"] == "fixture":
        run_fixture(case, res)
        res.log.add("world", "end", None)
        return res
    import partitura.performance as P
    from partitura.io.exportmatch import save_match, matchfile_from_alignment
    from partitura.io.importmatch import load_match

    asc, kn = case["workload"], case["knobs"]
    ap = asc["parts"][0]
    last = len(ap["measures"]) - 1
    if not any(n["kind"] == "note" and n["m"] == last and n["e"] == ap["measures"][last]["e"] for n in ap["notes"]):
        # outside the precondition (complete final measure): happens only to shrink candidates
        res.log.add("world", "skip", "final measure not closed by a pitched note")
        return res
    notes, controls, align = gen_alignment(asc, case["perf_seed"])
    if not any(a["label"] == "match" for a in align):
        res.log.add("world", "skip", "alignment without matches")
        return res
    kinds = set(a["label"] for a in align)
    for lab, probe in (("ornament", "ornament_entry"), ("deletion", "deletion_entry"), ("insertion", "insertion_entry")):
        if lab in kinds:
            res.probe(probe)
    shape = {"pickup": ap["measures"][0]["name"] == "0", "tschange": len(ap["timesigs"]) > 1, "ties": any(n.get("tie_next") for n in ap["notes"]), "grace": any(n["kind"] == "grace" for n in ap["notes"]), "pedal": bool(controls)}
    for key, probe in (("pickup", "pickup"), ("tschange", "timesig_change"), ("ties", "ties"), ("grace", "grace"), ("pedal", "pedal_lines")):
        if shape[key]:
            res.probe(probe)
    # a pickup whose extent is not delimited by notes: it starts with a rest, or the bar after it has no note onset
    # (the format stores neither rests nor measure lengths)
    m0 = ap["measures"][0]
    # the file has one snote line per *sounding* note: the continuation of a tie has no onset of its own in it
    pitched = [n for n in ap["notes"] if n["kind"] in ("note", "grace") and not n.get("tie_prev")]
    shape["pickup_undelimited"] = bool(shape["pickup"] and (not any(n["t"] == m0["s"] for n in pitched) or not any(n["m"] == 1 for n in pitched)))
    res.log.add("world", "init", {"mode": "roundtrip", "shape": shape, "kinds": sorted(kinds), "knobs": kn, "pnotes": len(notes)})
    score = build.build_score(asc)
    spart = score.parts[0]
    ppart = P.PerformedPart(copy.deepcopy(notes), id="PP", controls=copy.deepcopy(controls), ppq=kn["ppq"], mpq=kn["mpq"])
    alignment = copy.deepcopy(align)
    snapper = FP.Snapshotter()
    snap0 = snapper.snapshot(score, ppart, alignment)
    auto = bool(kn.get("auto_unfold"))
    kw = dict(ppq=kn["ppq"], mpq=kn["mpq"], assume_unfolded=not auto)
    want = describe(ppart, alignment, spart, ppq=kn["ppq"], mpq=kn["mpq"])
    if auto:
        # default of save_match: the exporter unfolds the part to fit the alignment; a part without repeats unfolds
        # to an equal part whose note ids carry the visit number
        res.probe("auto_unfold")
        want["alignment"] = sorted(((lab, None if sid is None else sid + "-1", pid) for lab, sid, pid in want["alignment"]), key=repr)
        want["snotes"] = {k + "-1": v for k, v in want["snotes"].items()}
        want["sdups"] = [k + "-1" for k in want["sdups"]]
    try:
        mf = matchfile_from_alignment(alignment, ppart, spart, ppq=kn["ppq"], mpq=kn["mpq"], assume_part_unfolded=not auto)
        ref_text = "".join(l.matchline + "\n" for l in mf.lines)
    except Exception as e:
        import traceback

        tb = traceback.extract_tb(e.__traceback__)
        site = [f for f in tb if "/partitura/" in f.filename]
        if not site:
            raise
        res.violation("A0-export-raised", "save", "matchfile_from_alignment raised %s: %s (in %s)" % (type(e).__name__, e, site[-1].name), site=site[-1].name)
        return res
    s1 = snapper.snapshot(score, ppart, alignment)
    if s1 != snap0:
        from checks.c20 import SEGMENT_SHAPE, diff_shape

        if auto and diff_shape(snap0, s1) == SEGMENT_SHAPE:
            # the automatic unfolding stores Segment objects on the part (known finding KF-C20-unfold-stores-segments,
            # judged under C20, whose statement it concerns); anything else the export changes is reported here
            res.count("auto_unfold_stored_segments")
        else:
            res.violation("O3-nonmutation", "save", "matchfile_from_alignment changed its arguments: %s" % "; ".join(FP.diff_snapshots(snap0, s1)), site="arguments")
        snap0 = s1
    # the score note lines read as text: the span in beats (OnsetInBeats..OffsetInBeats) is the notated duration -
    # judged when the beat unit is the same throughout, so that a span in beats has one meaning
    bts = set(x["beat_type"] for x in asc["parts"][0]["timesigs"])
    if len(bts) == 1:
        import re as _re

        bt = bts.pop()
        for l_ in ref_text.splitlines():
            m_ = _re.match(r"^snote\(([^,]+),\[[^\]]*\],-?\d+,[^,]+,[^,]+,([0-9]+)(?:/([0-9]+))?,(-?[0-9.]+),(-?[0-9.]+),\[", l_)
            if not m_:
                continue
            dur = F(int(m_.group(2)), int(m_.group(3) or 1))
            span = float(m_.group(5)) - float(m_.group(4))
            if abs(span - float(dur * bt)) > 2e-4:
                res.violation("A3-score", "save", "score note line %s: OnsetInBeats %s to OffsetInBeats %s is %.4f beats, its Duration %s is %.4f beats (beat unit 1/%d)" % (m_.group(1), m_.group(4), m_.group(5), span, dur, float(dur * bt), bt), site="line:offset-in-beats")
                break
    ref_bytes = ref_text.encode("utf-8")
    fs = SimFS(chunk=kn["chunk"])
    fs.expect_transfer(len(ref_bytes))
    path = "/simfs/a.match"
    content = {}
    disturbed = None
    dialect_whole = True
    last_loaded = None
    fault_by_op = {}
    for f in case["faults"]:
        fault_by_op.setdefault(f["op_index"], []).append(f)
    nontrivial = len(kinds) >= 2
    with fs:
        g0 = G.fingerprint()
        for i, op in enumerate(case["ops"]):
            fs.faults = [Fault(f["kind"], f["path"], f["at"], f["errno"], frac=f.get("frac")) for f in fault_by_op.get(i, [])]
            fs.inflight_points = []
            fired_before = dict(fs.fired)
            outcome = None
            if op["k"] == "save":
                try:
                    save_match(alignment, ppart, spart, path, **kw)
                    outcome = "ack"
                except SimCrash:
                    outcome = "crashed"
                except OSError as e:
                    outcome = "raised:%s" % e.errno
                if fs.inflight_points:
                    res.probe("fault_in_flight")
                    nontrivial = True
                if outcome == "ack":
                    content[path] = "ref"
                    disturbed = None
                    dialect_whole = True
                    if fs.get(path) != ref_bytes:
                        res.violation("R4-routes", "save", "acknowledged save stored text that differs from the fault-free reference", site="path")
                        content[path] = "unknown"
                else:
                    content[path] = "unknown"
                    s1 = snapper.snapshot(score, ppart, alignment)
                    if s1 != snap0:
                        res.violation("D1-failed-save-mutated", "save", "a failed save (%s) changed its arguments: %s" % (outcome, "; ".join(FP.diff_snapshots(snap0, s1))), site=outcome.split(":")[0])
                    fs.faults = []
                    if i % 2 == 0:
                        try:
                            save_match(alignment, ppart, spart, path, **kw)
                            if fs.get(path) != ref_bytes:
                                res.violation("D1-retry", "save", "fault-free retry after %s wrote different text than a fault-free world" % outcome, site=outcome.split(":")[0])
                            content[path] = "ref"
                            disturbed = None
                            dialect_whole = True
                        except Exception as e:
                            res.violation("D1-retry", "save", "fault-free retry after %s raised %s: %s" % (outcome, type(e).__name__, e), site=outcome.split(":")[0])
            elif op["k"] == "regen":
                # second generation: what was loaded (it carries ticks of the first file's clock) is written with
                # another clock and loaded again; performance and alignment must survive, times to the nearest new tick
                if last_loaded is not None:
                    perf1, al1, sc1 = last_loaded
                    pp1 = perf1.performedparts[0]
                    res.probe("second_generation")
                    nontrivial = True
                    ppq2 = pp1.ppq if op["ppq"] == "same" else op["ppq"]
                    mpq2 = pp1.mpq if op["mpq"] == "same" else op["mpq"]
                    if op.get("shift"):
                        # the loaded performance is edited through the note item interface (a delay) before it is
                        # written again: the times in seconds are what is written, whatever ticks the notes carry
                        res.probe("second_generation_after_edit")
                        for n in pp1.notes:
                            n["note_off"] = n["note_off"] + op["shift"]
                            n["note_on"] = n["note_on"] + op["shift"]
                    if op.get("midi_controls") and pp1.controls:
                        # the pedal events come from a MIDI file (its reader stores the tick of that file's clock on
                        # every control): written to a match file with another clock they keep their time in seconds
                        from partitura.io.exportmidi import save_performance_midi
                        from partitura.io.importmidi import load_performance_midi

                        try:
                            save_performance_midi(pp1, "/simfs/c.mid", ppq=op["midi_controls"], mpq=500000)
                            ppm = load_performance_midi("/simfs/c.mid").performedparts[0]
                            pp1.controls = [dict(c) for c in ppm.controls]
                            res.probe("controls_from_midi_file")
                        except Exception as e:
                            import traceback

                            if not any("/partitura/" in f.filename for f in traceback.extract_tb(e.__traceback__)):
                                raise
                    want2 = describe(pp1, al1, None, ppq=ppq2, mpq=mpq2)
                    path2 = "/simfs/b.match"
                    try:
                        save_match(al1, pp1, sc1.parts[0], path2, ppq=ppq2, mpq=mpq2, assume_unfolded=True)
                        perf2, al2, _ = with_timeout(20, load_match, path2, create_score=False), None, None
                        perf2, al2 = perf2[0], perf2[1]
                        compare(res, "regen", want2, describe(perf2, al2, None))
                        outcome = "regen"
                    except Timeout:
                        res.violation("L1-termination", "regen", "load_match did not terminate within the step budget on a second-generation file", site="load_match")
                        outcome = "timeout"
                    except Exception as e:
                        import traceback

                        tb = traceback.extract_tb(e.__traceback__)
                        site = [f for f in tb if "/partitura/" in f.filename]
                        if not site:
                            raise
                        res.violation("A0-export-raised", "regen", "writing/loading what load_match returned with ppq=%s mpq=%s raised %s: %s (in %s)" % (ppq2, mpq2, type(e).__name__, e, site[-1].name), site=site[-1].name)
                        outcome = "raised:" + type(e).__name__
            elif op["k"] == "disturb":
                if content.get(path) == "ref":
                    txt = fs.get(path).decode("utf-8")
                    # (a file that is already in the beat dialect is not converted a second time)
                    fs.put(path, disturb(txt, op if dialect_whole else dict(op, beat_dialect=False), res, alignment).encode("utf-8"))
                    disturbed = op.get("conflict") or "dup"
                    if op.get("beat_dialect"):
                        dialect_whole = False
                    nontrivial = True
                    res.fault("F8")
                    outcome = disturbed
            else:
                state = content.get(path)
                try:
                    if state == "ref" and not dialect_whole:
                        perf, al, sc = with_timeout(20, load_match, path, create_score=True, offset_duration_whole=False)
                    else:
                        perf, al, sc = with_timeout(20, load_match, path, create_score=True)
                    outcome = "loaded"
                except Timeout:
                    outcome = "timeout"
                    err = "no termination within the budget"
                    res.violation("L1-termination", "load", "load_match(create_score=True) did not terminate within the step budget on a file save_match wrote (time signatures %s)" % (want.get("timesigs"),), site="load_match")
                except SimCrash:
                    outcome = "crashed"
                except Exception as e:
                    outcome = "raised:" + type(e).__name__
                    err = e
                faulted = fs.fired != fired_before
                returned_despite = faulted and outcome == "loaded"  # must then be the right result
                if outcome == "timeout":
                    pass
                elif state == "ref" and (not faulted or returned_despite):
                    if outcome != "loaded":
                        res.violation("D1-durable" if disturbed is None else "B1-benign-disturbance", "load", "an acknowledged%s file could not be loaded: %s: %s" % ("" if disturbed is None else " (and then line-duplicated)", outcome, err), site=type(err).__name__)
                    else:
                        n0 = len(res.violations)
                        compare(res, "load", want, describe(perf, al, sc.parts[0]))
                        if len(res.violations) == n0:
                            last_loaded = (perf, al, sc)
                        for v in res.violations[n0:]:
                            if shape["pickup_undelimited"] and v["oracle"] in ("A3-score", "A4-structure") and v["site"] in ("measures", "timesigs", "keysigs", "onset_beat", "duration_beat"):
                                v["site"] = "pickup-undelimited:" + v["site"]
                            if disturbed is not None:
                                v["site"] = "%s after %s" % (v["site"], disturbed)
                elif state == "unknown":
                    res.probe("reader_on_torn_file")
            fired = {k: v - fired_before.get(k, 0) for k, v in fs.fired.items() if v != fired_before.get(k, 0)}
            for kk, v in fired.items():
                res.fault(kk, v)
            g1 = G.fingerprint()
            if g1 != g0:
                d = [kk for kk in g0 if g0[kk] != g1.get(kk)]
                res.violation("O5-globals", op["k"], "process-global state changed: %s" % d, site=",".join(d))
                G.restore(g0)
            res.log.add("client", op["k"], {"op": {k: v for k, v in op.items() if k not in ("dup", "blank")}, "faults": fault_by_op.get(i), "outcome": outcome})
            res.sigadd(op["k"], outcome, tuple(sorted(fired.items())))
            res.state(op["k"], outcome, tuple(sorted(content.items())), disturbed)
    s1 = snapper.snapshot(score, ppart, alignment)
    if s1 != snap0:
        res.violation("O3-nonmutation", "save/load", "score, performance or alignment changed during the run: %s" % "; ".join(FP.diff_snapshots(snap0, s1)), site="arguments")
    res.sigadd(tuple(sorted(shape.items())), tuple(sorted(kinds)), kn["ppq"], kn["mpq"])
    res.nontrivial = bool(nontrivial)
    res.log.add("world", "end", None)
    return res


def shrink_spec(case):
    if case["mode"] == "fixture":
        return [("disturb", "dup"), ("disturb", "blank")], []
    from checks import c03

    _, simp = c03.shrink_spec({"workload": case["workload"], "ops": [], "faults": []})

    def wrap(c):
        for d in simp[0]({"workload": c["workload"], "ops": [], "faults": []}):
            e = copy.deepcopy(c)
            e["workload"] = d["workload"]
            yield e

    return [("faults",), ("ops",)], [wrap]


def case_size(case):
    if case["mode"] == "fixture":
        return {"dup": len(case["disturb"]["dup"]), "blank": len(case["disturb"]["blank"])}
    return {"ops": len(case["ops"]), "faults": len(case["faults"]), "notes": len(case["workload"]["parts"][0]["notes"]), "measures": len(case["workload"]["parts"][0]["measures"])}
