"""C04 - score -> MIDI -> score through the storage world (DESIGN 3.6).

Writer: save_score_midi(score, target, mode, anacrusis policy, minimum_ppq,
velocity) over a route onto SimFS under a fault plan; readers: an independent
SMF decoder (model/ref_smf.py) and load_score_midi / load_score with the same
mode.  Oracles:
 M1 ppq == lcm of all quarter durations, doubled up to minimum_ppq
 M2 every note event tick is the exact integer image ppq*(quarter - origin)
    (computed in Fractions) and the multiset (onset, duration, pitch) of the
    file equals the abstract sounding notes (ties merged, grace notes zero)
 M3 time/key signatures and tempo at the same musical positions
 M4 requested velocity on every note-on
 M5 re-import with the same mode: same multiset in quarters, same grouping
    into parts and voices as the mode encodes, pitches exactly the file's
 D1/D2 durability / isolation under faults as in C03
 L1 the importer terminates (bounded liveness)
"""
import copy
import io
import signal
from fractions import Fraction as F
from math import gcd

from model import build, fingerprint as FP, gen, ref_smf
from sim import glob as G
from sim import rng as R
from sim.result import Result
from sim.simfs import Fault, SimCrash, SimFS

ID = "C04"
CONFIGS = ("nofault", "fault")
TIERS = {
    "quick": {"runs": 1600, "wall": 200, "gate": 16, "run_timeout": 120},
    "thorough": {"runs": 150000, "wall": 1500, "gate": 64, "run_timeout": 120},
}
SHRINK_BUDGET = 300
RULE = (
    "each run = one generated score (1-3 parts, divisions such as 6/12/24/480 and changes inside a part, tuplets, pickups, grace notes, "
    "ties over barlines, no equal-pitch overlap anywhere) exported with a sampled mode (0-5), pickup policy, minimum_ppq and velocity "
    "through a save/load history on SimFS with sampled routes, chunk sizes and faults; non-trivial = tuplets or a division change or a "
    "pickup or >=2 parts present, or a fault fired in flight; distinct = distinct (shape, mode, policy, route/fault sequence) signatures"
)
ASSUMPTIONS = [
    "quarter positions are measured from the first time point; the documented pickup policy defines the origin (shift/time_sig_change: first event at tick 0; pad_bar: one notated bar before the first full measure)",
    "time signatures are compared for shift and pad_bar only; time_sig_change rewrites them by design",
    "grouping is compared as a partition of the notes, as the chosen mode encodes it (mode 2 and 4 lose part/voice information by design)",
    "no atomic-replace is demanded after failed saves",
]
COMPONENTS = {"real": ["partitura.io.exportmidi.save_score_midi", "partitura.io.importmidi.load_score_midi", "partitura.io.load_score", "score.add_measures/tie_notes/find_tuplets", "musicanalysis.estimate_spelling", "mido"], "stub": ["raw file layer (SimFS)", "independent SMF decoder (model/ref_smf.py)"]}
PROBES = ("resequenced_file", "built_with_queries_before_structure", "tuplet_ticks", "division_change", "pickup", "grace_notes", "tie_over_barline", "fault_in_flight", "reader_on_torn_file", "torn_file_accepted", "midifile_object_route", "load_score_route", "minimum_ppq_doubling")

POLICIES = ("shift", "pad_bar", "time_sig_change")


class Timeout(Exception):
    pass


def _alarm(signum, frame):
    raise Timeout()


def with_timeout(seconds, fn, *a, **kw):
    old = signal.signal(signal.SIGALRM, _alarm)
    signal.alarm(seconds)
    try:
        return fn(*a, **kw)
    finally:
        signal.alarm(0)
        signal.signal(signal.SIGALRM, old)


def lcm(a, b):
    return a * b // gcd(a, b)


# ----------------------------------------------------------------------------
# generation


def enforce_no_pitch_overlap(asc, rng, mode=None):
    """precondition of C04: no two notes of equal pitch overlap within one track/channel.  mode=None: nowhere at all
    (holds for every mode); otherwise only inside the (track, channel) cell the mode puts a note in - equal pitches may
    then sound together in different parts (modes 0-3, 5) or voices (modes 0, 5)."""

    def cell(pi, voice):
        if mode is None or mode == 4:
            return ()
        if mode in (0, 5):
            return (pi, voice)
        return (pi,)

    chains = []
    for pi, p in enumerate(asc["parts"]):
        p["_pi"] = pi
    for p in asc["parts"]:
        byid = {n["id"]: n for n in p["notes"]}
        for n in p["notes"]:
            if n["kind"] not in ("note", "grace") or n.get("tie_prev"):
                continue
            members = [n]
            x = n
            while x.get("tie_next"):
                x = byid[x["tie_next"]]
                members.append(x)
            chains.append((p, members))
    placed = []  # (start_q, end_q, pitch, cell)

    def span(p, members):
        return gen.quarter_pos(p, members[0]["t"]), gen.quarter_pos(p, members[-1]["e"])

    def conflicts(a, b, mp, cl):
        for s, e, q, c in placed:
            if q != mp or c != cl:
                continue
            if a == b or s == e:  # zero-length notes must not touch an equal pitch at all
                if s <= a <= e or a <= s <= b:
                    return True
            elif a < e and s < b:
                return True
        return False

    chains.sort(key=lambda c: (span(*c)[0], c[1][0]["id"]))
    for p, members in chains:
        a, b = span(p, members)
        n0 = members[0]
        mp = gen.midi_pitch(n0["step"], n0["alter"], n0["octave"])
        cl = cell(p["_pi"], n0["voice"])
        if len(set(cell(p["_pi"], m["voice"]) for m in members)) > 1:
            cl = ()  # a tie chain that changes voice is kept apart from everything
        tries = 0
        while conflicts(a, b, mp, cl) and tries < 40:
            tries += 1
            step = rng.choice(gen.STEPS)
            alter = rng.choice((None, None, 1, -1))
            octave = rng.choice((2, 3, 4, 5, 6))
            mp = gen.midi_pitch(step, alter, octave)
            for m in members:
                m["step"], m["alter"], m["octave"] = step, alter, octave
        if conflicts(a, b, mp, cl):
            for m in members:
                m["kind"] = "rest"
                for k in ("tie_next", "tie_prev", "grace_next", "grace_prev"):
                    m.pop(k, None)
        else:
            placed.append((a, b, mp, cl))
            if cl == ():
                # ... and nothing else may overlap it anywhere
                for c2 in set(x[3] for x in placed):
                    placed.append((a, b, mp, c2))
    # clean dangling references to notes turned into rests
    for p in asc["parts"]:
        p.pop("_pi", None)
        kinds = {n["id"]: n["kind"] for n in p["notes"]}
        for n in p["notes"]:
            for k in ("tie_next", "tie_prev", "grace_next", "grace_prev"):
                if n.get(k) and kinds.get(n[k]) == "rest":
                    n[k] = None
        p["notes"] = [n for n in p["notes"] if not (n["kind"] == "rest" and n["t"] == n["e"])]
        # grace notes whose chain lost its main note become plain removed notes
        ids = {n["id"] for n in p["notes"]}
        p["slurs"] = [s for s in p["slurs"] if s["start"] in ids and s["end"] in ids and kinds[s["start"]] != "rest" and kinds[s["end"]] != "rest"]
        p["tuplets"] = [s for s in p["tuplets"] if s["start"] in ids and s["end"] in ids]


def tiny_tuplet_pickup(k):
    """a boundary score: an upbeat whose length is a tuplet fraction of a quarter (1/5, 2/3, 7/6, 7/24 ...), so that the
    position of the first barline in quarters is not a binary fraction; short notes right after the barline"""
    d, p = k.choice(((5, 1), (5, 2), (5, 3), (10, 3), (10, 7), (6, 1), (6, 7), (12, 14), (24, 7), (3, 1), (3, 2), (7, 3), (9, 2)))
    L = 4 * d
    bounds = [0, p, p + L, p + 2 * L]
    notes = []

    def add(t, e, m):
        notes.append({"id": "p1n%d" % (len(notes) + 1), "kind": "note", "t": t, "e": e, "voice": 1, "staff": 1, "sym": None, "m": m, "g": None, "step": "CDEFGAB"[len(notes) % 7], "alter": None, "octave": 4})

    add(0, p, 0)
    for m in (1, 2):
        t = bounds[m]
        add(t, t + 1, m)
        add(t + 1, t + d, m)
        for b in range(1, 4):
            add(t + b * d, t + (b + 1) * d, m)
    part = {
        "id": "P1", "name": "P1", "abbr": None, "qdivs": [[0, d]], "nstaves": 1, "end": bounds[-1],
        "measures": [{"s": bounds[m], "e": bounds[m + 1], "number": m + 1, "name": str(m)} for m in range(3)],
        "timesigs": [{"t": 0, "beats": 4, "beat_type": 4}], "keysigs": [{"t": 0, "fifths": 0, "mode": "major"}],
        "clefs": [{"t": 0, "staff": 1, "sign": "G", "line": 2, "oct": 0}],
        "notes": notes, "slurs": [], "tuplets": [], "dirs": [], "tempos": [], "repeats": [], "endings": [], "nav": [], "fermatas": [],
    }
    return {"id": None, "parts": [part], "groups": None}


def tiny_long(k):
    """a boundary score: a long movement. Either a pedal point - one note tied through 40 to 60 measures under a moving
    voice - or some three hundred measures whose last ones move in triplets (tick positions beyond 2**19 that are not
    exact in binary floating point)"""
    if k.random() < 0.5:
        nm, q = k.choice((40, 60)), 1
        L = 4 * q
        notes = []
        for m in range(nm):
            n = {"id": "p1n%d" % (len(notes) + 1), "kind": "note", "t": m * L, "e": (m + 1) * L, "voice": 2, "staff": 1, "sym": {"type": "whole", "dots": 0}, "m": m, "g": None, "step": "C", "alter": None, "octave": 2}
            if m > 0:
                n["tie_prev"] = notes[-1]["id"]
                notes[-1]["tie_next"] = n["id"]
            notes.append(n)
        held = list(notes)
        for m in range(0, nm, 7):
            notes.append({"id": "p1n%d" % (len(notes) + 1), "kind": "note", "t": m * L + q, "e": m * L + 2 * q, "voice": 1, "staff": 1, "sym": {"type": "quarter", "dots": 0}, "m": m, "g": None, "step": "E", "alter": None, "octave": 4})
        del held
    else:
        nm, q = k.choice((280, 300)), 12
        L = 4 * q
        notes = []
        for m in list(range(0, 3)) + list(range(nm - 6, nm)):
            for i in range(12):
                notes.append({"id": "p1n%d" % (len(notes) + 1), "kind": "note", "t": m * L + 4 * i, "e": m * L + 4 * i + 4, "voice": 1, "staff": 1, "sym": {"type": "eighth", "dots": 0, "actual_notes": 3, "normal_notes": 2}, "m": m, "g": None, "step": "CDEFGAB"[i % 7], "alter": None, "octave": 4})
    part = {
        "id": "P1", "name": "P1", "abbr": None, "qdivs": [[0, q]], "nstaves": 1, "end": nm * L,
        "measures": [{"s": m * L, "e": (m + 1) * L, "number": m + 1, "name": str(m + 1)} for m in range(nm)],
        "timesigs": [{"t": 0, "beats": 4, "beat_type": 4}], "keysigs": [{"t": 0, "fifths": 0, "mode": "major"}],
        "clefs": [{"t": 0, "staff": 1, "sign": "G", "line": 2, "oct": 0}],
        "notes": notes, "slurs": [], "tuplets": [], "dirs": [], "tempos": [], "repeats": [], "endings": [], "nav": [], "fermatas": [],
    }
    return {"id": None, "parts": [part], "groups": None}


def tiny_many(k):
    """a boundary score: as many parts (or voices of one part) as there are MIDI channels to give them"""
    n = k.choice((9, 10, 12, 15))
    by_voice = k.random() < 0.5
    L = 8

    def part(pid, voices, base):
        notes = []
        for vi, v in enumerate(voices):
            for m in range(2):
                notes.append({"id": "%sn%d" % (pid.lower(), len(notes) + 1), "kind": "note", "t": m * L + (vi % 2) * 2, "e": m * L + (vi % 2) * 2 + 2, "voice": v, "staff": 1, "sym": {"type": "quarter", "dots": 0}, "m": m, "g": None, "step": "CDEFGAB"[(base + vi) % 7], "alter": None, "octave": 2 + (base + vi) // 7})
        return {
            "id": pid, "name": pid, "abbr": None, "qdivs": [[0, 2]], "nstaves": 1, "end": 2 * L,
            "measures": [{"s": m * L, "e": (m + 1) * L, "number": m + 1, "name": str(m + 1)} for m in range(2)],
            "timesigs": [{"t": 0, "beats": 4, "beat_type": 4}], "keysigs": [{"t": 0, "fifths": 0, "mode": "major"}],
            "clefs": [{"t": 0, "staff": 1, "sign": "G", "line": 2, "oct": 0}],
            "notes": notes, "slurs": [], "tuplets": [], "dirs": [], "tempos": [], "repeats": [], "endings": [], "nav": [], "fermatas": [],
        }

    if by_voice:
        parts = [part("P1", list(range(1, n + 1)), 0)]
    else:
        parts = [part("P%d" % (i + 1), [1], i) for i in range(n)]
    return {"id": None, "parts": parts, "groups": None}


def generate(seed, tier, cfg):
    st = R.Streams(seed)
    k = st.knobs
    asc = gen.gen_score(st.workload, profile="midi", size=gen.pick_size(tier, st.knobs))
    if k.random() < 0.04:
        asc = tiny_many(k)
    elif k.random() < 0.05:
        asc = tiny_tuplet_pickup(k)
    elif k.random() < 0.015:
        asc = tiny_long(k)
    if k.random() < 0.08 and len(asc["parts"]) > 1:
        # nothing makes part ids unique: parts built by hand often all have the default id
        same = k.choice(("", "P", None))
        for p in asc["parts"]:
            p["id"] = same
    mode = k.randrange(0, 6)
    per_cell = k.random() < 0.5
    enforce_no_pitch_overlap(asc, st.workload, mode if per_cell else None)
    o = st.ops
    policy = k.choice(POLICIES)
    min_ppq = k.choice((0, 0, 0, 24, 480, 960))
    if len(asc["parts"][0]["measures"]) >= 200:
        min_ppq = k.choice((480, 960))
    velocity = k.choice((64, 64, 1, 100, 127))
    path = "/simfs/out.mid"
    ops = [{"k": "save", "path": path, "route": o.choice(("path", "path", "filelike"))}]
    for _ in range(k.choice((1, 2, 3))):
        x = o.random()
        if x < 0.3:
            ops.append({"k": "save", "path": path, "route": o.choice(("path", "filelike"))})
        else:
            ops.append({"k": "load", "path": path, "route": o.choice(("path", "midifile", "load_score"))})
    ops.append({"k": "load", "path": path, "route": o.choice(("path", "midifile", "load_score"))})
    faults = []
    f = st.faults
    if cfg == "fault":
        for _ in range(f.choice((1, 1, 2))):
            oi = f.randrange(0, len(ops))
            kind = f.choice(("F1", "F2", "F2", "F3", "F4", "F4")) if ops[oi]["k"] == "save" else f.choice(("F5", "F6", "F6"))
            at = f.choice((0, 0, 1, 2, 3, 5, 8))
            err = {"F1": f.choice((28, 13, 2)), "F2": f.choice((28, 5)), "F3": 28, "F4": 0, "F5": f.choice((2, 13)), "F6": 5}[kind]
            faults.append({"kind": kind, "path": "*", "at": at if kind in ("F2", "F4", "F6") else 0, "errno": err, "op_index": oi, "frac": (round(f.random(), 3) if kind in ("F2", "F4", "F6") and f.random() < 0.5 else None)})
    return {"workload": asc, "ops": ops, "faults": faults, "knobs": {"mode": mode, "policy": policy, "min_ppq": min_ppq, "velocity": velocity, "chunk": k.choice((1, 7, 16, 0, 0)), "bufsize": k.choice((-1, 16, 512)), "late_structure": k.random() < 0.3, "late_divs": k.random() < 0.3, "quantize_one_tick": k.random() < 0.25, "resequence": k.random() < 0.3}}


# ----------------------------------------------------------------------------
# reference


def expected(asc, kn):
    """exact expectations from the abstract score"""
    ppq = 1
    for p in asc["parts"]:
        for t, q in p["qdivs"]:
            ppq = lcm(ppq, q)
    base_ppq = ppq
    while ppq < kn["min_ppq"]:
        ppq *= 2
    p0 = asc["parts"][0]
    ts0 = p0["timesigs"][0]
    bar = F(ts0["beats"] * 4, ts0["beat_type"])
    m0 = p0["measures"][0]
    first_len = gen.quarter_pos(p0, m0["e"]) - gen.quarter_pos(p0, m0["s"])
    pickup = first_len if first_len < bar else None
    if pickup is not None and kn["policy"] == "pad_bar":
        shift = bar - pickup
    else:
        shift = F(0)
    notes = []
    for pi, p in enumerate(asc["parts"]):
        byid = {n["id"]: n for n in p["notes"]}
        for n in p["notes"]:
            if n["kind"] not in ("note", "grace") or n.get("tie_prev"):
                continue
            e = n["e"]
            x = n
            while x.get("tie_next"):
                x = byid[x["tie_next"]]
                e = x["e"]
            on = gen.quarter_pos(p, n["t"]) + shift
            off = gen.quarter_pos(p, e) + shift
            notes.append((on, off - on, gen.midi_pitch(n["step"], n["alter"], n["octave"]), pi, n["voice"]))
    return {"ppq": ppq, "base_ppq": base_ppq, "shift": shift, "pickup": pickup, "notes": notes, "bar": bar}


def shape_of(asc, exp):
    tup = any(n.get("g") is not None for p in asc["parts"] for n in p["notes"])
    divchg = any(len(p["qdivs"]) > 1 for p in asc["parts"])
    grace = any(n["kind"] == "grace" for p in asc["parts"] for n in p["notes"])
    tieb = False
    for p in asc["parts"]:
        byid = {n["id"]: n for n in p["notes"]}
        tieb |= any(n.get("tie_next") and byid[n["tie_next"]]["m"] != n["m"] for n in p["notes"])
    return {"tuplets": tup, "divchg": divchg, "pickup": exp["pickup"] is not None, "grace": grace, "tieb": tieb, "parts": len(asc["parts"])}


def expected_partition(exp, mode, asc):
    """partition of the notes (as (onset, dur, pitch) triples) that the mode encodes"""

    def key(pi, v):
        if mode in (0, 5):
            return (pi, v)
        if mode in (1, 3):
            return (pi,)
        return ()

    groups = {}
    for on, d, mp, pi, v in exp["notes"]:
        groups.setdefault(key(pi, v), []).append((on, d, mp))
    return sorted(sorted(g) for g in groups.values())


# ----------------------------------------------------------------------------
# execution


def check_bytes(res, data, asc, exp, kn):
    """M1-M4 on the written bytes through the independent decoder"""
    try:
        smf = ref_smf.decode(data)
    except Exception as e:
        res.violation("M0-wellformed", "save", "independent SMF decoder rejects the written file: %s: %s" % (type(e).__name__, e), site="decode")
        return None
    if smf["ppq"] != exp["ppq"]:
        res.violation("M1-ppq", "save", "ticks per quarter %d, expected lcm of divisions %d doubled up to minimum %d = %d" % (smf["ppq"], exp["base_ppq"], kn["min_ppq"], exp["ppq"]), site="ppq")
        return smf
    ppq = smf["ppq"]
    got = []
    vel_bad = None
    for tr in smf["tracks"]:
        for on, off, pitch, vel, ch in ref_smf.notes_of(tr):
            got.append((F(on, ppq), F(off - on, ppq), pitch))
            if vel != kn["velocity"]:
                vel_bad = vel
    want = sorted((on, d, mp) for on, d, mp, pi, v in exp["notes"])
    got.sort()
    if got != want:
        miss = [x for x in want if x not in got][:3]
        extra = [x for x in got if x not in want][:3]
        # classify: off by less than one tick = tick rounding
        site = "notes"
        if miss and extra and len(got) == len(want):
            if all(abs(a[0] - b[0]) <= F(1, ppq) and abs(a[1] - b[1]) <= F(2, ppq) and a[2] == b[2] for a, b in zip(sorted(miss), sorted(extra))):
                site = "tick-rounding"
        res.violation("M2-exact-ticks", "save", "notes in the file (quarters) differ from the score: missing %s, unexpected %s (ppq %d, policy %s)" % ([(str(a), str(b), c) for a, b, c in miss], [(str(a), str(b), c) for a, b, c in extra], ppq, kn["policy"]), site=site)
    if vel_bad is not None:
        res.violation("M4-velocity", "save", "note-on velocity %s in the file, requested %s" % (vel_bad, kn["velocity"]), site="velocity")
    # M3 signatures and tempo
    shift = exp["shift"]
    for pi, p in enumerate(asc["parts"]):
        pass
    tempos_want = sorted(set((gen.quarter_pos(p, tm["t"]) + shift, gen.tempo_mpq(tm["bpm"], tm.get("unit"))) for p in asc["parts"] for tm in p["tempos"]))
    tempos_got = sorted(set((F(ev["tick"], ppq), ev["tempo"]) for tr in smf["tracks"] for ev in tr if ev["type"] == "set_tempo"))
    if tempos_want:
        # a default tempo at tick 0 is legitimate when the score has no tempo mark there
        if not any(a == 0 for a, b in tempos_want):
            tempos_got = [x for x in tempos_got if x != (F(0), 500000)]
        if tempos_got != tempos_want:
            res.violation("M3-positions", "save", "tempo events %s, expected %s" % ([(str(a), b) for a, b in tempos_got], [(str(a), b) for a, b in tempos_want]), site="tempo")
    if kn["policy"] != "time_sig_change":
        ts_want = set()
        for p in asc["parts"]:
            if not any(n["kind"] in ("note", "grace") for n in p["notes"]):
                continue
            for i, ts in enumerate(p["timesigs"]):
                pos = gen.quarter_pos(p, ts["t"]) + shift
                if kn["policy"] == "pad_bar" and i == 0:
                    pos = F(0)
                ts_want.add((pos, ts["beats"], ts["beat_type"]))
        ts_got = set((F(ev["tick"], ppq), ev["numerator"], ev["denominator"]) for tr in smf["tracks"] for ev in tr if ev["type"] == "time_signature")
        # the fourth byte of the event says how many notated 32nd notes make a MIDI quarter note (24 MIDI clocks): 8,
        # unless the file wants its quarter to be notated as something else - the score has no such notion
        odd = [(str(F(ev["tick"], ppq)), ev["numerator"], ev["denominator"], ev["n32"]) for tr in smf["tracks"] for ev in tr if ev["type"] == "time_signature" and ev["n32"] != 8]
        if odd:
            res.violation("M3-positions", "save", "time signature events declare a MIDI quarter to be notated as %s 32nd notes: %s" % (odd[0][3], odd), site="time_signature:notated-32nds")
        if ts_got != ts_want:
            res.violation("M3-positions", "save", "time signatures in the file %s, expected %s" % (sorted((str(a), b, c) for a, b, c in ts_got), sorted((str(a), b, c) for a, b, c in ts_want)), site="time_signature")
        ks_want = set()
        for p in asc["parts"]:
            if not any(n["kind"] in ("note", "grace") for n in p["notes"]):
                continue
            for ks in p["keysigs"]:
                ks_want.add((gen.quarter_pos(p, ks["t"]) + shift, ks["fifths"], 1 if ks["mode"] == "minor" else 0))
        ks_got = set((F(ev["tick"], ppq), ev["fifths"], ev["minor"]) for tr in smf["tracks"] for ev in tr if ev["type"] == "key_signature")
        if ks_got != ks_want:
            res.violation("M3-positions", "save", "key signatures in the file %s, expected %s" % (sorted((str(a), b, c) for a, b, c in ks_got), sorted((str(a), b, c) for a, b, c in ks_want)), site="key_signature")
    return smf


def import_opts(kn):
    """non-default importer options that must not change what is read: a quantisation unit of one tick"""
    if kn.get("quantize_one_tick"):
        return {"quantization_unit": 1}
    return {}


def check_import(res, loaded, smf, exp, kn, asc, route, grouping=True):
    """M5 on the re-imported score"""
    import partitura.score as S

    ppq = exp["ppq"]
    got_groups = []
    allgot = []
    for part in loaded.parts:
        byv = {}
        for n in part.notes_tied:
            on = F(n.start.t, ppq)
            du = F(n.duration_tied, ppq)
            key = n.voice
            byv.setdefault(key, []).append((on, du, n.midi_pitch))
            allgot.append((on, du, n.midi_pitch))
        if kn["mode"] in (0, 2, 5) or True:
            for v, g in byv.items():
                got_groups.append(sorted(g))
    want = sorted((on, d, mp) for on, d, mp, pi, v in exp["notes"])
    allgot.sort()
    if allgot != want:
        miss = [x for x in want if x not in allgot][:3]
        extra = [x for x in allgot if x not in want][:3]
        res.violation("M5-reimport", "load", "re-imported notes differ from the score: missing %s, unexpected %s" % ([(str(a), str(b), c) for a, b, c in miss], [(str(a), str(b), c) for a, b, c in extra]), site="notes")
        return
    # M6: every re-imported part carries the time signatures of the file at their positions (the signatures of all
    # generated parts are the same: one measure plan per score)
    if kn["policy"] != "time_sig_change":
        import partitura.score as S

        shift = exp["shift"]
        p0 = next((p for p in asc["parts"] if any(n["kind"] in ("note", "grace") for n in p["notes"])), None)
        if p0 is not None:
            ts_want = []
            for i, ts in enumerate(p0["timesigs"]):
                pos = gen.quarter_pos(p0, ts["t"]) + shift
                if kn["policy"] == "pad_bar" and i == 0:
                    pos = F(0)
                ts_want.append((pos, ts["beats"], ts["beat_type"]))
            ts_want.sort()
            for part in loaded.parts:
                ts_got = sorted((F(o.start.t, ppq), o.beats, o.beat_type) for o in part.iter_all(S.TimeSignature))
                if ts_got != ts_want:
                    res.violation("M6-import-signatures", "load", "mode %d: a re-imported part has time signatures %s, the file and the score have %s" % (kn["mode"], [(str(a), b, c) for a, b, c in ts_got], [(str(a), b, c) for a, b, c in ts_want]), site="time_signature")
                    break
    if not grouping:
        return
    # grouping: partition into (part, voice) cells
    mode = kn["mode"]
    cells = []
    for part in loaded.parts:
        byv = {}
        for n in part.notes_tied:
            byv.setdefault(n.voice if mode in (0, 2) else None, []).append((F(n.start.t, ppq), F(n.duration_tied, ppq), n.midi_pitch))
        cells.extend(sorted(g) for g in byv.values())
    wantp = expected_partition(exp, mode, asc)
    if sorted(cells) != wantp:
        res.violation("M5-grouping", "load", "mode %d: grouping of notes into parts/voices after re-import has %d cells %s, the mode encodes %d cells %s" % (mode, len(cells), [len(c) for c in sorted(cells)], len(wantp), [len(c) for c in wantp]), site="mode%d" % mode)


def execute(case, keep_log=False):
    import mido
    import partitura as pt
    from partitura.io.exportmidi import save_score_midi
    from partitura.io.importmidi import load_score_midi

    res = Result(keep_log)
    asc, kn = case["workload"], case["knobs"]
    exp = expected(asc, kn)
    shape = shape_of(asc, exp)
    for key, probe in (("tuplets", "tuplet_ticks"), ("divchg", "division_change"), ("pickup", "pickup"), ("grace", "grace_notes"), ("tieb", "tie_over_barline")):
        if shape[key]:
            res.probe(probe)
    if exp["ppq"] != exp["base_ppq"]:
        res.probe("minimum_ppq_doubling")
    res.log.add("world", "init", {"shape": shape, "knobs": kn, "ppq": exp["ppq"], "notes": len(exp["notes"])})
    if not exp["notes"]:
        res.log.add("world", "skip", "no pitched notes")
        return res
    if (exp["shift"] * exp["ppq"]).denominator != 1:
        # The padding of pad_bar (bar length - pickup length) is not a whole number of ticks at the ppq the property
        # fixes (lcm of the divisions): the score's divisions cannot notate a complete bar of its own time signature
        # (e.g. divisions 1 under 9/8).  "ppq = lcm" and "every tick exact" cannot both hold then; not judged.
        res.count("skipped:pad_not_a_whole_number_of_ticks")
        res.log.add("world", "skip", "pad_bar padding is not a whole number of ticks at the lcm ppq")
        return res
    score = build.build_score(asc, late_structure=bool(kn.get("late_structure")), late_divs=bool(kn.get("late_divs")))
    if kn.get("late_structure"):
        res.probe("built_with_queries_before_structure")
    snapper = FP.Snapshotter()
    snap0 = snapper.snapshot(score)
    kw = dict(part_voice_assign_mode=kn["mode"], velocity=kn["velocity"], anacrusis_behavior=kn["policy"], minimum_ppq=kn["min_ppq"])
    # fault-free reference bytes
    buf = io.BytesIO()
    try:
        save_score_midi(score, buf, **kw)
    except Exception as e:
        import traceback

        tb = traceback.extract_tb(e.__traceback__)
        site = [f for f in tb if "/partitura/" in f.filename]
        res.violation("M0-export-raised", "save", "save_score_midi raised %s: %s" % (type(e).__name__, e), site=site[-1].name if site else "?")
        return res
    ref_bytes = buf.getvalue()
    smf = check_bytes(res, ref_bytes, asc, exp, kn)
    res.log.add("world", "reference", {"bytes": len(ref_bytes), "digest": FP.digest(ref_bytes)[:16]})
    fs = SimFS(chunk=kn["chunk"])
    fs.expect_transfer(len(ref_bytes), kn["bufsize"])
    content = {}
    fault_by_op = {}
    for f in case["faults"]:
        fault_by_op.setdefault(f["op_index"], []).append(f)
    nontrivial = shape["tuplets"] or shape["divchg"] or shape["pickup"] or shape["parts"] >= 2
    import_ok = not res.violations  # a wrong file makes import comparisons moot
    with fs:
        g0 = G.fingerprint()
        for i, op in enumerate(case["ops"]):
            fs.faults = [Fault(f["kind"], f["path"], f["at"], f["errno"], frac=f.get("frac")) for f in fault_by_op.get(i, [])]
            fs.inflight_points = []
            path = op["path"]
            fired_before = dict(fs.fired)
            outcome = None
            if op["k"] == "save":
                try:
                    if op["route"] == "path":
                        save_score_midi(score, path, **kw)
                    else:
                        with fs.open(path, "wb", kn["bufsize"]) as fh:
                            save_score_midi(score, fh, **kw)
                    outcome = "ack"
                except SimCrash:
                    outcome = "crashed"
                except OSError as e:
                    outcome = "raised:%s" % e.errno
                if fs.inflight_points:
                    res.probe("fault_in_flight")
                    nontrivial = True
                if outcome == "ack":
                    content[path] = "ref"
                    if fs.get(path) != ref_bytes:
                        res.violation("R4-routes", "save", "acknowledged save over route %s stored bytes that differ from the fault-free reference" % op["route"], site=op["route"])
                        content[path] = "unknown"
                else:
                    content[path] = "unknown"
                    s1 = snapper.snapshot(score)
                    if s1 != snap0:
                        res.violation("D1-failed-save-mutated", "save", "a failed save (%s) changed its argument: %s" % (outcome, "; ".join(FP.diff_snapshots(snap0, s1))), site=outcome.split(":")[0])
                    fs.faults = []
                    if i % 2 == 0:
                        try:
                            save_score_midi(score, path, **kw)
                            if fs.get(path) != ref_bytes:
                                res.violation("D1-retry", "save", "fault-free retry after %s wrote different bytes than a fault-free world" % outcome, site=outcome.split(":")[0])
                            content[path] = "ref"
                        except Exception as e:
                            res.violation("D1-retry", "save", "fault-free retry after %s raised %s: %s" % (outcome, type(e).__name__, e), site=outcome.split(":")[0])
            else:
                state = content.get(path)
                loaded = None
                route = op["route"]
                if kn.get("resequence") and not case["faults"] and state == "ref" and i == len(case["ops"]) - 1:
                    # the file passes through a sequencer before it is read: controller, pitch-bend and program events
                    # appear between the notes (each with its own delta time); the notes and signatures stay where they are
                    smf_ = ref_smf.decode(fs.get(path))
                    tracks_ = []
                    for tr in smf_["tracks"]:
                        ticks_ = sorted(set(ev["tick"] for ev in tr))
                        extra = []
                        for a_, b_ in zip(ticks_, ticks_[1:]):
                            if b_ - a_ >= 2:
                                mid = (a_ + b_) // 2
                                extra.append([{"tick": mid, "type": "control_change", "channel": 0, "control": 64, "value": 127 if len(extra) % 2 == 0 else 0}, {"tick": mid, "type": "pitchwheel", "channel": 0, "pitch": 100}, {"tick": mid, "type": "program_change", "channel": 0, "program": 5}][len(extra) % 3])
                        tracks_.append([ev for ev in tr if ev["type"] not in ("meta", "other")] + extra)
                    if any(len(a_) != len([ev for ev in b_ if ev["type"] not in ("meta", "other")]) for a_, b_ in zip(tracks_, smf_["tracks"])):
                        res.probe("resequenced_file")
                        fs.put(path, ref_smf.encode(smf_["ppq"], tracks_, fmt=smf_["format"]))
                try:
                    if route == "path":
                        loaded = with_timeout(20, load_score_midi, path, part_voice_assign_mode=kn["mode"], **import_opts(kn))
                    elif route == "midifile":
                        res.probe("midifile_object_route")
                        mf = mido.MidiFile(path)
                        loaded = with_timeout(20, load_score_midi, mf, part_voice_assign_mode=kn["mode"], **import_opts(kn))
                    else:
                        res.probe("load_score_route")
                        loaded = with_timeout(20, pt.load_score, path)
                    outcome = "loaded"
                except Timeout:
                    outcome = "timeout"
                except SimCrash:
                    outcome = "crashed"
                except Exception as e:
                    outcome = "raised:" + type(e).__name__
                faulted = fs.fired != fired_before
                returned_despite = faulted and outcome == "loaded"  # must then be the right result
                if outcome == "timeout":
                    res.violation("L1-termination", "load", "load over route %s of a %s file did not terminate within the step budget (policy %s, pickup %s)" % (route, state, kn["policy"], exp["pickup"]), site=kn["policy"])
                elif state == "ref" and (not faulted or returned_despite):
                    if outcome != "loaded":
                        res.violation("D1-durable", "load", "an acknowledged file could not be loaded over route %s: %s" % (route, outcome), site=route)
                    elif import_ok:
                        if route == "load_score":
                            # load_score imports with mode 0: the grouping clause only speaks of the same mode
                            kn2 = dict(kn)
                            kn2["mode"] = 0 if kn["mode"] == 0 else 4
                            check_import(res, loaded, smf, exp, kn2, asc, route, grouping=(kn["mode"] == 0))
                        else:
                            check_import(res, loaded, smf, exp, kn, asc, route)
                elif state == "unknown":
                    res.probe("reader_on_torn_file")
                    if outcome == "loaded":
                        res.probe("torn_file_accepted")
            fired = {k: v - fired_before.get(k, 0) for k, v in fs.fired.items() if v != fired_before.get(k, 0)}
            for kk, v in fired.items():
                res.fault(kk, v)
            g1 = G.fingerprint()
            if g1 != g0:
                d = [kk for kk in g0 if g0[kk] != g1.get(kk)]
                res.violation("O5-globals", op["k"], "process-global state changed: %s" % d, site=",".join(d))
                G.restore(g0)
            res.log.add("client", op["k"], {"op": op, "faults": fault_by_op.get(i), "outcome": outcome})
            res.sigadd(op["k"], op.get("route"), outcome, tuple(sorted(fired.items())))
            res.state(op["k"], outcome, tuple(sorted(content.items())))
    s1 = snapper.snapshot(score)
    if s1 != snap0:
        res.violation("O3-nonmutation", "save/load", "the exported score object changed during the run: %s" % "; ".join(FP.diff_snapshots(snap0, s1)), site="score")
    res.sigadd(tuple(sorted(shape.items())), kn["mode"], kn["policy"], kn["min_ppq"])
    res.nontrivial = bool(nontrivial)
    res.log.add("world", "end", None)
    return res


def shrink_spec(case):
    from checks import c03

    paths = [("faults",), ("ops",)]
    _, simp = c03.shrink_spec(case)

    def knobs(c):
        for key, val in (("min_ppq", 0), ("velocity", 64), ("chunk", 0), ("bufsize", -1)):
            if c["knobs"][key] != val:
                d = copy.deepcopy(c)
                d["knobs"][key] = val
                yield d

    return paths, simp + [knobs]


def case_size(case):
    return {"ops": len(case["ops"]), "faults": len(case["faults"]), "parts": len(case["workload"]["parts"]), "notes": sum(len(p["notes"]) for p in case["workload"]["parts"])}
