"""C09 - the unfold machine (DESIGN 3.3).

One part with a generated repeat structure; one client issues a *sequence* of
unfolding calls on the SAME part object.  The simulator owns the call history
(segments are cached on the argument, path enumeration shares Segment objects)
and the hash seed.  After every call the returned part(s) are compared with an
independent reference: the measure sequence of the result must be a path the
repeat structure permits (exact expected sequence for repeat/volta shapes and
the maximal/minimal policies), its content must be the concatenation of copies
of the visited measures, no brackets/jumps remain, every reference stays inside
the copy, and the original part is unchanged."""
import copy

from model import build, fingerprint as FP, gen
from sim import glob as G
from sim import rng as R
from sim.result import Result

ID = "C09"
CONFIGS = ("history",)
TIERS = {
    "quick": {"runs": 2400, "wall": 200, "gate": 16, "run_timeout": 120},
    "thorough": {"runs": 200000, "wall": 1500, "gate": 64, "run_timeout": 120},
}
SHRINK_BUDGET = 300
RULE = (
    "each run = one generated single part (3-8 measures; shapes: none, one or two simple repeats, volta 1/2, volta '1, 2'/3, volta + "
    "simple repeat, da capo (al fine), dal segno (al fine), to coda/coda; ties and slurs crossing segment boundaries, tuplets, grace "
    "notes, division changes) and a sequence of 3-8 unfolding calls on the same object; non-trivial = the part has a repeat structure "
    "and at least two different calls were made; distinct = distinct (shape, call sequence) pairs"
)
ASSUMPTIONS = [
    "exact expected measure sequences are asserted for repeat and volta shapes only; for navigation marks (da capo, dal segno, fine, coda) only path validity is asserted, the property does not fix one reading",
    "a reference of a copied object may be None where its target lies in another segment (create_variant_part maps references per segment); it must never point into the original",
    "Fine, Segno and Coda marks may remain in the result (the statement lists da capo, dal segno, to coda)",
    "get_paths / Part.segments / pretty_segments / add_segments are documented to store Segment objects on the part",
]
COMPONENTS = {"real": ["partitura.score: add_segments, get_paths, Path, ScoreVariant.create_variant_part, unfold_part_maximal/minimal, iter_unfolded_parts, new_part_from_path", "utils.generic.ReplaceRefMixin", "utils.music.update_note_ids_after_unfolding"], "stub": ["none (no I/O in this world)"]}
PROBES = ("original_looked_at_first", "unfold_by_alignment", "result_edited", "unfold_of_an_unfolded_part", "repeat_moved_between_unfoldings", "score_vs_part", "same_call_twice_with_other_between", "tie_across_segment_boundary", "slur_across_segment_boundary", "volta", "volta3", "navigation", "two_repeats", "no_structure", "variant_count_checked", "partial_generator")


# ----------------------------------------------------------------------------
# generation


def generate(seed, tier, cfg):
    st = R.Streams(seed)
    k, o = st.knobs, st.ops
    asc = gen.gen_score(st.workload, profile="unfold", size=gen.pick_size(tier, st.knobs))
    p = asc["parts"][0]
    if k.random() < 0.12:
        # no repeat structure at all
        p["repeats"], p["endings"], p["nav"] = [], [], []
        p["repeat_shape"] = "none"
    if k.random() < 0.5:
        for e in p["endings"]:
            e["number"] = str(e["number"])  # as the MusicXML importer stores them; otherwise ints as documented
    ops = []
    for _ in range(k.choice((3, 4, 6, 8))):
        x = o.random()
        if ops and o.random() < 0.3:
            ops.append(dict(o.choice(ops)))  # the same call again, with others in between
            continue
        if x < 0.3:
            ops.append({"k": "max", "update_ids": o.random() < 0.6, "ignore_leaps": o.random() < 0.7, "edit_result": o.random() < 0.3})
        elif x < 0.5:
            ops.append({"k": "min"})
        elif x < 0.6:
            ops.append({"k": "iter", "take": o.choice((1, 99, 99, 99)), "update_ids": o.random() < 0.5})
        elif x < 0.68:
            ops.append({"k": "align"})
        elif x < 0.73:
            ops.append({"k": "reunfold"})
        elif x < 0.78 and ops:
            ops.append({"k": "move_repeat"})
        elif x < 0.8:
            ops.append({"k": "paths", "flags": o.choice(((False, False, True), (False, True, True), (True, False, True), (False, True, False), (False, False, False)))})
        elif x < 0.9:
            ops.append({"k": "segments"})
        elif x < 0.95:
            ops.append({"k": "pretty_segments"})
        else:
            ops.append({"k": "force_new"})
    if k.random() < 0.02:
        # a boundary: a long piece with more sections than the alphabet has letters (segment ids)
        nsec = k.choice((26, 27, 28, 30, 52, 64))  # (52 and 64 repeated strains: paths of more than 100 segment visits)
        L = 4
        notes = [{"id": "p1n%d" % (m + 1), "kind": "note", "t": m * L, "e": (m + 1) * L, "voice": 1, "staff": 1, "sym": {"type": "whole", "dots": 0}, "m": m, "g": None, "step": "CDEFGAB"[m % 7], "alter": None, "octave": 3 + m % 3} for m in range(nsec)]
        p = {
            "id": "P1", "name": "Part P1", "abbr": None, "qdivs": [[0, 1]], "nstaves": 1, "end": nsec * L,
            "measures": [{"s": m * L, "e": (m + 1) * L, "number": m + 1, "name": str(m + 1)} for m in range(nsec)],
            "timesigs": [{"t": 0, "beats": 4, "beat_type": 4}], "keysigs": [{"t": 0, "fifths": 0, "mode": "major"}],
            "clefs": [{"t": 0, "staff": 1, "sign": "G", "line": 2, "oct": 0}],
            "notes": notes, "slurs": [], "tuplets": [], "dirs": [], "tempos": [], "nav": [], "fermatas": [], "endings": [],
            "repeats": [{"s": m * L, "e": (m + 1) * L} for m in range(nsec)], "repeat_shape": "many",
        }
        asc = {"id": None, "parts": [p], "groups": None}
        ops = [{"k": "max", "update_ids": True, "ignore_leaps": True}, {"k": "min"}, {"k": "max", "update_ids": False, "ignore_leaps": True}]
        return {"workload": asc, "ops": ops, "knobs": {"via_score": k.random() < 0.3, "looked_at": k.random() < 0.4}}
    if p.get("repeat_shape") in ("simple", "simple2") and k.random() < 0.5:
        # a history: unfold, move a repeat start one measure earlier (in place), rebuild the segments, unfold again
        ops += [{"k": "max", "update_ids": True, "ignore_leaps": True}, {"k": "move_repeat"}, {"k": "max", "update_ids": True, "ignore_leaps": True}, {"k": "iter", "take": 99, "update_ids": False}]
    return {"workload": asc, "ops": ops, "knobs": {"via_score": k.random() < 0.3, "looked_at": k.random() < 0.4}}


# ----------------------------------------------------------------------------
# reference


def structure(ap):
    ms = ap["measures"]
    n = len(ms)
    idx = {m["s"]: i for i, m in enumerate(ms)}
    idx[ms[-1]["e"]] = n
    reps = [(idx[r["s"]], idx[r["e"]]) for r in ap["repeats"]]
    ends = [(idx[e["s"]], idx[e["e"]], [int(x) for x in str(e["number"]).split(",")]) for e in ap["endings"]]
    nav = [(v["cls"], idx[v["t"]]) for v in ap["nav"]]
    return n, reps, ends, nav


def expected_sequences(ap):
    """-> (max_seq or None, min_seq or None, nvariants or None)"""
    n, reps, ends, nav = structure(ap)
    shape = ap.get("repeat_shape", "none")
    full = list(range(n))
    if not reps and not ends and not nav:
        return full, full, 1
    if nav:
        return None, None, None
    if shape == "nested" and len(reps) == 2 and not ends:
        (a, d), (b, c) = sorted(reps, key=lambda r: (r[0], -r[1]))
        if not (a <= b and c <= d):
            (b, c), (a, d) = (a, d), (b, c)
        inner = list(range(a, b)) + list(range(b, c)) * 2 + list(range(c, d))
        if c == d:
            # the inner repeat ends on the outer repeat's end barline: one sign closes both
            return None, full, None
        return list(range(0, a)) + inner * 2 + list(range(d, n)), full, None
    if not ends:
        # independent simple repeats
        mx = []
        pos = 0
        for a, b in sorted(reps):
            mx += list(range(pos, b)) + list(range(a, b))
            pos = b
        mx += list(range(pos, n))
        return mx, full, 2 ** len(reps)
    # volta shapes: one repeat [a, e1) whose last measures are the first ending, then the last ending
    ends = sorted(ends)
    (a, rb) = sorted(reps)[0]
    first = ends[0]
    last = ends[-1]
    body = list(range(a, first[0]))
    mx = list(range(0, a))
    mn = list(range(0, a))
    times = len(first[2])
    for _ in range(times):
        mx += body + list(range(first[0], first[1]))
    mx += body + list(range(last[0], last[1]))
    mn += body + list(range(last[0], last[1]))
    pos = last[1]
    rest_reps = sorted(reps)[1:]
    for ra, rb2 in rest_reps:
        mx += list(range(pos, rb2)) + list(range(ra, rb2))
        mn += list(range(pos, rb2))
        pos = rb2
    mx += list(range(pos, n))
    mn += list(range(pos, n))
    return mx, mn, None


def valid_path(ap, seq, fine_needs_leap=True):
    """is the measure sequence a path the structure permits? (transitions; a Fine
    ends the piece only after a da capo / dal segno has been taken, except for the
    minimal policy whose documentation says it stops at a Fine the first time)"""
    n, reps, ends, nav = structure(ap)
    if not seq or seq[0] != 0:
        return "does not start at the first measure"
    navd = {}
    for cls, i in nav:
        navd.setdefault(cls, []).append(i)
    leapt = False
    leaps = []
    for x, y in zip(seq, seq[1:]):
        if y == x + 1:
            continue
        b = x + 1  # boundary index after measure x
        ok = False
        if (b in navd.get("DaCapo", []) and y == 0) or (b in navd.get("DalSegno", []) and y in navd.get("Segno", [])):
            leapt = True
        if any(rb == b and ra == y for ra, rb in reps):
            ok = True  # repeat jump back
        if any(e[0] <= x < e[1] for e in ends) and any(ra == y for ra, rb in reps):
            ok = True  # end of an ending bracket back to the repeat start
        if any(e[0] == b for e in ends) and any(e[0] == y for e in ends) and y > x:
            ok = True  # skip an ending to a later ending
        if b in navd.get("DaCapo", []) and y == 0:
            ok = True
            leaps.append(("DaCapo", b))
        if b in navd.get("DalSegno", []) and y in navd.get("Segno", []):
            ok = True
            leaps.append(("DalSegno", b))
        if b in navd.get("ToCoda", []) and y in navd.get("Coda", []):
            ok = True
        if not ok:
            return "jump from measure %d to measure %d is not marked" % (x, y)
    for lp in set(leaps):
        if leaps.count(lp) > 1:
            return "the %s after measure %d is taken %d times" % (lp[0], lp[1] - 1, leaps.count(lp))
    last = seq[-1]
    if last != n - 1 and (last + 1) not in navd.get("Fine", []):
        return "ends after measure %d, which is neither the last measure nor a Fine" % last
    if last != n - 1 and fine_needs_leap and not leapt:
        return "stops at the Fine after measure %d although no da capo / dal segno was taken before" % last
    return None


def measure_content(ap, m):
    ms = ap["measures"][m]
    out = []
    for nn in ap["notes"]:
        if nn["m"] == m:
            out.append((nn["t"] - ms["s"], nn["e"] - nn["t"], nn["kind"], nn.get("step"), nn.get("alter") or 0, nn.get("octave"), nn["voice"], nn["staff"], nn["id"]))
    return out


def check_part(res, ap, orig_part, rp, opname, policy, update_ids, orig_objs):
    """all per-result clauses of C09"""
    import partitura.score as S

    ms = ap["measures"]
    seq = [m.number - 1 for m in sorted(rp.iter_all(S.Measure), key=lambda m: m.start.t)]
    mx, mn, nvar = expected_sequences(ap)
    want = {"max": mx, "min": mn}.get(policy)
    if want is not None and seq != want:
        res.violation("U4-policy", opname, "%s unfolding visits measures %s, the notated repeats/endings give %s (shape %s)" % (policy, seq, want, ap.get("repeat_shape")), site=policy + ":" + str(ap.get("repeat_shape")))
        return
    why = valid_path(ap, seq, fine_needs_leap=(policy != "min"))
    if why:
        res.violation("U1-path", opname, "result visits measures %s: %s (shape %s)" % (seq, why, ap.get("repeat_shape")), site=str(ap.get("repeat_shape")))
        return
    # U1 content: concatenation of copies
    exp = []
    off = 0
    visits = {}
    for m in seq:
        visits[m] = visits.get(m, 0) + 1
        for (o, d, kind, step, alter, octave, voice, staff, nid) in measure_content(ap, m):
            # ids of notes (incl. grace notes) get the visit number; rests are not notes
            exp.append((off + o, d, kind, step, alter, octave, voice, staff, nid + ("-%d" % visits[m] if (update_ids and kind in ("note", "grace")) else "")))
        off += ms[m]["e"] - ms[m]["s"]
    got = []
    t0 = rp.first_point.t if rp.first_point else 0
    for nn in rp.iter_all(S.GenericNote, include_subclasses=True):
        kind = "grace" if isinstance(nn, S.GraceNote) else "note" if isinstance(nn, S.Note) else "rest" if isinstance(nn, S.Rest) else "unpitched"
        got.append((nn.start.t - t0, nn.end.t - nn.start.t, kind, getattr(nn, "step", None), getattr(nn, "alter", None) or 0, getattr(nn, "octave", None), nn.voice, nn.staff, nn.id))
    if sorted(got, key=repr) != sorted(exp, key=repr):
        miss = [x for x in exp if x not in got][:3]
        extra = [x for x in got if x not in exp][:3]
        site = "ids" if sorted(x[:-1] for x in got) == sorted(x[:-1] for x in exp) else "notes"
        res.violation("U1-copies", opname, "result is not the concatenation of the visited measures %s: missing %s, unexpected %s" % (seq, miss, extra), site=site)
        return
    total = rp.last_point.t - rp.first_point.t
    if total != off:
        beyond = [tp for tp in rp._points if tp.t - t0 > off]
        dangling = bool(beyond) and all(not any(len(oo) for oo in tp.starting_objects.values()) for tp in beyond)
        res.violation("U1-length", opname, "result spans %d divisions, the visited measures sum to %d%s" % (total, off, " (only ends of objects that start in a visited segment and end outside it lie beyond the end)" if dangling else ""), site="length:dangling-end" if dangling else "length")
    # U1 signatures: every visit of a measure stands under the time and key signature the measure has in the original
    def in_force(entries, t, fields):
        cur = None
        for x in sorted(entries, key=lambda x: x["t"]):
            if x["t"] <= t:
                cur = tuple(x.get(f) for f in fields)
        return cur

    o_ = 0
    for i_, m in enumerate(seq):
        wt = in_force(ap.get("timesigs", []), ms[m]["s"], ("beats", "beat_type"))
        wk = in_force(ap.get("keysigs", []), ms[m]["s"], ("fifths",))
        cur_ts = None
        for x in rp.iter_all(S.TimeSignature):
            if x.start.t <= t0 + o_ and (cur_ts is None or x.start.t >= cur_ts.start.t):
                cur_ts = x
        cur_ks = None
        for x in rp.iter_all(S.KeySignature):
            if x.start.t <= t0 + o_ and (cur_ks is None or x.start.t >= cur_ks.start.t):
                cur_ks = x
        gt = (cur_ts.beats, cur_ts.beat_type) if cur_ts is not None else None
        gk = (cur_ks.fifths,) if cur_ks is not None else None
        if wt is not None and gt != wt:
            res.violation("U1-signatures", opname, "visit %d (measure %d) of the result stands under time signature %s, the measure is in %s" % (i_ + 1, m + 1, gt, wt), site="time-signature")
            return
        if wk is not None and gk != wk:
            res.violation("U1-signatures", opname, "visit %d (measure %d) of the result stands under key signature %s, the measure has %s" % (i_ + 1, m + 1, gk, wk), site="key-signature")
            return
        for stf in sorted(set(c["staff"] for c in ap.get("clefs", []))):
            wc = in_force([c for c in ap["clefs"] if c["staff"] == stf], ms[m]["s"], ("sign", "line"))
            cur_c = None
            for x in rp.iter_all(S.Clef):
                if x.staff == stf and x.start.t <= t0 + o_ and (cur_c is None or x.start.t >= cur_c.start.t):
                    cur_c = x
            gc = (cur_c.sign, cur_c.line) if cur_c is not None else None
            if wc is not None and gc != wc:
                res.violation("U1-signatures", opname, "visit %d (measure %d) of the result has clef %s on staff %d, the measure has %s" % (i_ + 1, m + 1, gc, stf, wc), site="clef")
                return
        o_ += ms[m]["e"] - ms[m]["s"]
    # U1 objects: what starts inside a visited measure (directions, tempo marks, slurs, tuplets) occurs once per visit at
    # the shifted position
    want_o, o_ = [], 0
    per_measure = {}
    for cls in (S.Direction, S.Tempo, S.Slur, S.Tuplet):
        for x in orig_part.iter_all(cls, include_subclasses=True):
            for mi, mm in enumerate(ms):
                if mm["s"] <= x.start.t < mm["e"]:
                    per_measure.setdefault(mi, []).append((type(x).__name__, x.start.t - mm["s"], (x.end.t - x.start.t) if (x.end is not None and cls in (S.Slur, S.Tuplet)) else None))
    for m in seq:
        for (cn, dt, ln) in per_measure.get(m, []):
            want_o.append((cn, o_ + dt, ln))
        o_ += ms[m]["e"] - ms[m]["s"]
    got_o = []
    for cls in (S.Direction, S.Tempo, S.Slur, S.Tuplet):
        for x in rp.iter_all(cls, include_subclasses=True):
            got_o.append((type(x).__name__, x.start.t - t0, (x.end.t - x.start.t) if (x.end is not None and cls in (S.Slur, S.Tuplet)) else None))
    if sorted(got_o, key=repr) != sorted(want_o, key=repr):
        miss = [x for x in want_o if x not in got_o][:3]
        extra = [x for x in got_o if x not in want_o][:3]
        only_len = sorted(x[:2] for x in got_o) == sorted(x[:2] for x in want_o)
        res.violation("U1-objects", opname, "objects starting in the visited measures %s: missing %s, unexpected %s (class, position, length)" % (seq, miss, extra), site="span-length" if only_len else ("missing:" + miss[0][0] if miss else "extra:" + extra[0][0]))
    # U2 no brackets / jumps
    for cls in (S.Repeat, S.Ending, S.DaCapo, S.DalSegno, S.ToCoda):
        if any(True for _ in rp.iter_all(cls)):
            res.violation("U2-leftover", opname, "a %s remains in the unfolded part" % cls.__name__, site=cls.__name__)
    # U3 references stay inside the copy, each once; time points linked to their neighbours
    inside = set()
    pts = list(rp._points)
    for tp in pts:
        inside.add(id(tp))
        for reg in (tp.starting_objects, tp.ending_objects):
            for oo in reg.values():
                for o in oo:
                    inside.add(id(o))
    for k, tp in enumerate(pts):
        if tp.prev is not (pts[k - 1] if k else None) or tp.next is not (pts[k + 1] if k + 1 < len(pts) else None):
            res.violation("U3-references", opname, "time point t=%s of the result is not linked to its neighbours" % tp.t, site="timepoint-links")
            break
    for tp in pts:
        for oo in tp.starting_objects.values():
            for o in oo:
                for attr in ("tie_prev", "tie_next", "grace_prev", "grace_next", "start_note", "end_note", "start", "end", "fermata", "beam"):
                    v = getattr(o, attr, None)
                    if v is None or isinstance(v, str):
                        continue
                    if id(v) in orig_objs or (id(v) not in inside and attr in ("start", "end", "tie_prev", "tie_next", "grace_prev", "grace_next", "start_note", "end_note")):
                        res.violation("U3-references", opname, "%s.%s of a copied object points outside the copy (%s)" % (type(o).__name__, attr, "into the original" if id(v) in orig_objs else "to an object not registered in the result"), site=type(o).__name__ + "." + attr)
                        return
                # derived references follow the stored ones: the main note of a grace note is a note of the copy
                if isinstance(o, S.GraceNote):
                    mn = o.main_note
                    if mn is not None and id(mn) not in inside:
                        res.violation("U3-references", opname, "main_note of copied grace note %s is %s, %s" % (o.id, getattr(mn, "id", None), "a note of the original" if id(mn) in orig_objs else "not registered in the result"), site="GraceNote.main_note")
                        return
                # links come in pairs and join neighbours in time: a tie (grace chain) that was cut at a segment
                # boundary is cut on both sides, one that was kept joins the copy of the same visit
                for fwd, back in (("tie_next", "tie_prev"), ("grace_next", "grace_prev")):
                    v = getattr(o, fwd, None)
                    if v is not None and not isinstance(v, str) and (fwd == "tie_next" or hasattr(v, back)):
                        if getattr(v, back, None) is not o:
                            res.violation("U3-references", opname, "%s of note %s is %s, whose %s is %s" % (fwd, getattr(o, "id", None), getattr(v, "id", None), back, getattr(getattr(v, back, None), "id", None)), site="one-sided:" + fwd)
                            return
                        if fwd == "tie_next" and v.start.t != o.end.t:
                            res.violation("U3-references", opname, "note %s (ends at %s) is tied to %s, which starts at %s" % (getattr(o, "id", None), o.end.t, getattr(v, "id", None), v.start.t), site="tie-not-adjacent")
                            return
                    w_ = getattr(o, back, None)
                    if w_ is not None and not isinstance(w_, str) and getattr(w_, fwd, None) is not o:
                        res.violation("U3-references", opname, "%s of note %s is %s, whose %s is %s" % (back, getattr(o, "id", None), getattr(w_, "id", None), fwd, getattr(getattr(w_, fwd, None), "id", None)), site="one-sided:" + back)
                        return
                for attr in ("slur_starts", "slur_stops", "tuplet_starts", "tuplet_stops"):
                    lst = getattr(o, attr, None)
                    if not lst:
                        continue
                    ids = [id(x) for x in lst if x is not None]
                    if len(ids) != len(set(ids)):
                        res.violation("U3-references", opname, "%s.%s of a copied note lists a reference twice" % (type(o).__name__, attr), site=type(o).__name__ + "." + attr + ":dup")
                        return
                    for x in lst:
                        if x is not None and (id(x) in orig_objs or id(x) not in inside):
                            res.violation("U3-references", opname, "%s.%s of a copied note points outside the copy" % (type(o).__name__, attr), site=type(o).__name__ + "." + attr)
                            return
    return seq


SEGMENT_SHAPE = "TimePoint.ending_objects[Segment]|TimePoint.starting_objects[Segment]"


def execute(case, keep_log=False):
    import partitura.score as S
    from checks.c20 import diff_shape

    res = Result(keep_log)
    asc = copy.deepcopy(case["workload"])  # move_repeat edits the abstract score: execute must stay a pure function of the case
    ap = asc["parts"][0]
    shape = ap.get("repeat_shape", "none")
    n, reps, ends, nav = structure(ap)
    res.log.add("world", "init", {"shape": shape, "measures": n, "reps": reps, "ends": [(a, b, c) for a, b, c in ends], "nav": nav})
    for cond, probe in ((shape == "none", "no_structure"), (shape.startswith("volta") and shape != "volta3", "volta"), (shape == "volta3", "volta3"), (bool(nav), "navigation"), (len(reps) >= 2, "two_repeats")):
        if cond:
            res.probe(probe)
    byid = {x["id"]: x for x in ap["notes"]}
    bounds = set(r["s"] for r in ap["repeats"]) | set(r["e"] for r in ap["repeats"]) | set(e["s"] for e in ap["endings"]) | set(e["e"] for e in ap["endings"]) | set(v["t"] for v in ap["nav"])
    if any(x.get("tie_next") and any(x["t"] < b <= byid[x["tie_next"]]["t"] for b in bounds) for x in ap["notes"]):
        res.probe("tie_across_segment_boundary")
    for sl in ap["slurs"]:
        if any(byid[sl["start"]]["t"] < b <= byid[sl["end"]]["t"] for b in bounds):
            res.probe("slur_across_segment_boundary")
    score = build.build_score(asc, with_pages=True)
    part = score.parts[0]
    if case["knobs"].get("looked_at"):
        # the part has been looked at before it is unfolded (printed, derived properties of its objects read)
        res.probe("original_looked_at_first")
        try:
            part.pretty()
        except Exception:
            pass
        for o in part.iter_all(S.GenericNote, include_subclasses=True):
            for attr in ("main_note", "duration_tied", "end_tied", "symbolic_duration", "midi_pitch", "alter_sign"):
                try:
                    getattr(o, attr, None)
                except Exception:
                    pass
    snapper = FP.Snapshotter()
    snap = [snapper.snapshot(score)]
    orig_objs = set()
    for tp in part._points:
        orig_objs.add(id(tp))
        for reg in (tp.starting_objects, tp.ending_objects):
            for oo in reg.values():
                for o in oo:
                    orig_objs.add(id(o))
    g0 = G.fingerprint()
    seen_ops = []
    results = {}
    distinct_calls = set()

    def nonmutation(opname):
        s1 = snapper.snapshot(score)
        if s1 != snap[0]:
            shp = diff_shape(snap[0], s1)
            seg_only = all(x in ("TimePoint.ending_objects[Segment]", "TimePoint.starting_objects[Segment]", "new:Segment", "gone:Segment") for x in shp.split("|"))
            if opname == "move_repeat":
                pass
            elif not (opname in ("paths", "segments", "pretty_segments", "force_new") and seg_only):
                res.violation("U5-original-modified", opname, "the original part changed: %s" % "; ".join(FP.diff_snapshots(snap[0], s1)), site=shp, target="score" if case["knobs"]["via_score"] and opname in ("max", "min") else "part")
            snap[0] = s1
            # objects now part of the original
            for tp in part._points:
                for reg in (tp.starting_objects, tp.ending_objects):
                    for oo in reg.values():
                        for o in oo:
                            orig_objs.add(id(o))

    def fatal():
        # the direct manifestations of the two known findings do not end a history: later operations still run
        return any(not ((v["oracle"] == "U5-original-modified" and v.get("site") == SEGMENT_SHAPE) or (v["oracle"] == "U1-length" and v.get("site") == "length:dangling-end")) for v in res.violations)

    for op in case["ops"]:
        if fatal():
            break
        k = op["k"]
        key = repr(sorted(op.items()))
        if key in seen_ops and seen_ops[-1] != key:
            res.probe("same_call_twice_with_other_between")
        seen_ops.append(key)
        distinct_calls.add(key)
        outcome = None
        try:
            if k == "max":
                arg = score if case["knobs"]["via_score"] else part
                r = S.unfold_part_maximal(arg, update_ids=op["update_ids"], ignore_leaps=op["ignore_leaps"])
                rp = r.parts[0] if isinstance(r, S.Score) else r
                outcome = check_part(res, ap, part, rp, "max", "max", op["update_ids"], orig_objs)
                if op.get("edit_result") and outcome is not None:
                    # the result is an independent part: an edit of it (a slur between its first two notes) reaches
                    # neither the original nor the copies of other visits
                    ns = sorted(rp.iter_all(S.Note), key=lambda n: (n.start.t, n.id or ""))
                    if len(ns) >= 2 and ns[1].end is not None:
                        sl = S.Slur(ns[0], ns[1])
                        rp.add(sl, ns[0].start.t, ns[1].end.t)
                        res.probe("result_edited")
                        holders = [n.id for n in rp.iter_all(S.Note, include_subclasses=True) if sl in (n.slur_starts or []) or sl in (n.slur_stops or [])]
                        if sorted(holders) != sorted([ns[0].id, ns[1].id]):
                            res.violation("U3-references", "max", "a slur added between notes %s and %s of the unfolded part is listed by notes %s" % (ns[0].id, ns[1].id, holders), site="shared-reference-list")
                if case["knobs"]["via_score"] and outcome is not None:
                    # the same part unfolded directly (fresh object) must follow the same path
                    fresh = build.build_score(asc, with_pages=True).parts[0]
                    rf = S.unfold_part_maximal(fresh, update_ids=op["update_ids"], ignore_leaps=op["ignore_leaps"])
                    sf = [m.number - 1 for m in sorted(rf.iter_all(S.Measure), key=lambda m: m.start.t)]
                    res.probe("score_vs_part")
                    if sf != outcome:
                        res.violation("U4-policy", "max", "unfolding the Score visits measures %s, unfolding its part with the same flags (ignore_leaps=%s) visits %s" % (outcome, op["ignore_leaps"], sf), site="score-vs-part")
            elif k == "min":
                arg = score if case["knobs"]["via_score"] else part
                r = S.unfold_part_minimal(arg)
                rp = r.parts[0] if isinstance(r, S.Score) else r
                outcome = check_part(res, ap, part, rp, "min", "min", False, orig_objs)
            elif k == "iter":
                g = S.iter_unfolded_parts(part, update_ids=op["update_ids"])
                seqs = []
                cnt = 0
                for rp in g:
                    cnt += 1
                    sq = check_part(res, ap, part, rp, "iter", "any", op["update_ids"], orig_objs)
                    seqs.append(sq)
                    nonmutation("iter")
                    if fatal() or cnt >= op["take"]:
                        break
                if op["take"] < 99:
                    res.probe("partial_generator")
                    g.close()
                else:
                    mx, mn, nvar = expected_sequences(ap)
                    if nvar is not None and not fatal():
                        res.probe("variant_count_checked")
                        if cnt != nvar:
                            res.violation("U4-variants", "iter", "%d variants for %d independent simple repeats, expected %d" % (cnt, len(reps), nvar), site="count")
                        elif len(set(map(tuple, seqs))) != cnt:
                            res.violation("U4-variants", "iter", "variants are not distinct: %s" % seqs, site="distinct")
                outcome = seqs
            elif k == "align":
                # unfold_part_alignment: the variant that covers an alignment best.  The alignment lists the note
                # ids of the maximal unfolding (taken from a fresh, equal part), so only that variant covers it
                fresh = build.build_score(asc, with_pages=True).parts[0]
                ref = S.unfold_part_maximal(fresh, update_ids=True)
                ids = [n.id for n in ref.notes_tied]
                alignment = [{"label": "match", "score_id": i, "performance_id": "p%d" % j} for j, i in enumerate(ids)]
                al0 = copy.deepcopy(alignment)
                rp = S.unfold_part_alignment(part, alignment)
                res.probe("unfold_by_alignment")
                outcome = check_part(res, ap, part, rp, "align", "any", True, orig_objs)
                got = sorted(n.id for n in rp.notes_tied)
                if not fatal() and got != sorted(ids):
                    res.violation("U4-policy", "align", "unfold_part_alignment for an alignment that lists the notes of the maximal unfolding returns a part with %d sounding notes, the maximal unfolding has %d (measures visited: %s)" % (len(got), len(ids), outcome), site="alignment-coverage")
                if alignment != al0 and any("-1" in (a.get("score_id") or "") for a in al0):
                    res.violation("U5-original-modified", "align", "unfold_part_alignment rewrote an alignment whose ids already carry visit numbers", site="alignment", target="alignment")
            elif k == "reunfold":
                # the result of an unfolding is a part like any other: put a repeat around it and unfold again
                fresh = build.build_score(asc, with_pages=True).parts[0]
                r1 = S.unfold_part_maximal(fresh, update_ids=True)
                ids1 = sorted(n.id for n in r1.notes)
                if r1.first_point is not None and r1.last_point is not None and r1.first_point.t < r1.last_point.t:
                    r1.add(S.Repeat(), r1.first_point.t, r1.last_point.t)
                    r2 = S.unfold_part_maximal(r1, update_ids=True)
                    res.probe("unfold_of_an_unfolded_part")
                    ids2 = sorted(n.id for n in r2.notes)
                    want2 = sorted(i + "-1" for i in ids1) + sorted(i + "-2" for i in ids1)
                    if sorted(ids2) != sorted(want2):
                        dup = sorted(set(i for i in ids2 if ids2.count(i) > 1))[:4]
                        res.violation("U1-copies", "reunfold", "a repeat around an unfolded part (ids %s...) unfolds to notes with ids %s... (%d notes, %d distinct), expected every id once with -1 and once with -2 (repeated ids: %s)" % (ids1[:3], ids2[:4], len(ids2), len(set(ids2)), dup), site="ids-second-generation")
                    outcome = len(ids2)
            elif k == "move_repeat":
                # documented in-place edit between two unfoldings: a repeat is made to start one measure earlier,
                # the segments are rebuilt on request, and everything afterwards follows the new structure
                reps_ = sorted(part.iter_all(S.Repeat), key=lambda r: r.start.t)
                bounds = [m["s"] for m in ap["measures"]]
                cand = [(r, bounds.index(r.start.t)) for r in reps_ if r.start.t in bounds and bounds.index(r.start.t) > 0]
                cand = [(r, i) for r, i in cand if not any(o is not r and o.start.t < r.start.t <= o.end.t and bounds[i - 1] < o.end.t and o.start.t <= bounds[i - 1] for o in reps_)]
                if cand and ap.get("repeat_shape") in ("simple", "simple2") and not any(o.end.t == cand[0][0].start.t for o in reps_):
                    r, i = cand[0]
                    for x in ap["repeats"]:
                        if x["s"] == r.start.t and x["e"] == r.end.t:
                            x["s"] = bounds[i - 1]
                            break
                    part.remove(r, "start")
                    part.add(r, start=bounds[i - 1])
                    S.add_segments(part, force_new=True)
                    res.probe("repeat_moved_between_unfoldings")
                    results.clear()
                    snap[0] = snapper.snapshot(score)
                    outcome = i - 1
            elif k == "paths":
                a, b, c = op["flags"]
                ps = S.get_paths(part, no_repeats=a, all_repeats=b, ignore_leap_info=c)
                outcome = [list(p.path) for p in ps]
                import re as _re

                for p_ in ps[:4]:
                    rows = [tuple(float(x) for x in m_.groups()) for m_ in _re.finditer(r"segment\s+(-?[0-9.]+) - (-?[0-9.]+)\s+duration:\s+(-?[0-9.]+)", p_.pretty(part))]
                    bad_rows = [r_ for r_ in rows if abs((r_[1] - r_[0]) - r_[2]) > 1e-6]
                    if bad_rows:
                        res.violation("U1-length", "paths", "the listing of a path gives a segment from beat %s to beat %s the duration %s" % bad_rows[0], site="listing:duration")
                        break
            elif k == "segments":
                outcome = [[s.id, list(s.to)] for s in part.segments]
            elif k == "pretty_segments":
                txt = S.pretty_segments(part)
                outcome = FP.digest(txt)[:12]
                # the listing says where each segment starts and ends (in beats) and how long it is: the length is the
                # difference, and the segments tile the part
                import re as _re

                rows = [tuple(float(x) for x in m_.groups()) for m_ in _re.finditer(r"segment\s+(-?[0-9.]+) - (-?[0-9.]+)\s+duration:\s+(-?[0-9.]+)", txt)]
                bad_rows = [r_ for r_ in rows if abs((r_[1] - r_[0]) - r_[2]) > 1e-6]
                if bad_rows:
                    res.violation("U1-length", "pretty_segments", "the segment listing gives a segment from beat %s to beat %s the duration %s" % bad_rows[0], site="listing:duration")
                elif rows and any(abs(a_[1] - b_[0]) > 1e-6 for a_, b_ in zip(rows, rows[1:])):
                    res.violation("U1-length", "pretty_segments", "the segments of the listing do not follow one another: %s" % (rows[:4],), site="listing:tiling")
            elif k == "force_new":
                S.add_segments(part, force_new=True)
                outcome = "ok"
        except Exception as e:
            import traceback

            tb = traceback.extract_tb(e.__traceback__)
            site = [f for f in tb if "/partitura/" in f.filename]
            if not site:
                raise
            res.violation("U0-raised", k, "%s on a part of shape %s raised %s: %s (in %s)" % (op, shape, type(e).__name__, e, site[-1].name), site=site[-1].name)
            outcome = "raised"
        # repeatability of the same call, whatever came in between
        if k in ("max", "min", "paths") and outcome is not None:
            d = FP.digest(outcome)
            if key in results and results[key] != d:
                res.violation("U6-history", k, "%s returned %s now and something else earlier on the same part" % (op, outcome), site=shape)
            results.setdefault(key, d)
        nonmutation(k)
        g1 = G.fingerprint()
        if g1 != g0:
            d = [kk for kk in g0 if g0[kk] != g1.get(kk)]
            res.violation("O5-globals", k, "process-global state changed: %s" % d, site=",".join(d))
            G.restore(g0)
        res.log.add("client", k, {"op": op, "outcome": outcome})
        res.sigadd(k, repr(outcome)[:40])
        res.state(shape, k, repr(outcome)[:60])
    res.sigadd(shape, n)
    res.nontrivial = shape != "none" and len(distinct_calls) >= 2
    res.log.add("world", "end", None)
    return res


def shrink_spec(case):
    from checks import c03

    paths = [("ops",)]
    _, simp = c03.shrink_spec({"workload": case["workload"], "ops": [], "faults": []})

    def wrap(c):
        for d in simp[0]({"workload": c["workload"], "ops": [], "faults": []}):
            # keep the repeat structure consistent: do not drop measures here
            if len(d["workload"]["parts"][0]["measures"]) != len(c["workload"]["parts"][0]["measures"]):
                continue
            e = copy.deepcopy(c)
            e["workload"] = d["workload"]
            yield e

    return paths, [wrap]


def case_size(case):
    return {"ops": len(case["ops"]), "measures": len(case["workload"]["parts"][0]["measures"]), "notes": len(case["workload"]["parts"][0]["notes"])}
