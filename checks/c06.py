"""C06 - performance MIDI through the storage world (DESIGN 3.7).

Two directions, two peers.
 out-and-back: a generated performance given as Performance, PerformedPart or
   list -> save_performance_midi(ppq, mpq, merge) over a route onto SimFS under
   a fault plan -> independent SMF decoder and load_performance_midi /
   load_performance.
 foreign files: the independent SMF writer produces well-formed files with
   arbitrary set_tempo sequences in any track -> load_performance_midi.
The simulator owns the file system, routes, faults, the form of the argument
and the history of save/load operations."""
import copy
import io
from fractions import Fraction as F

from model import fingerprint as FP, ref_smf
from sim import glob as G
from sim import rng as R
from sim.result import Result
from sim.simfs import Fault, SimCrash, SimFS

ID = "C06"
CONFIGS = ("roundtrip", "roundtrip+fault", "foreign")
TIERS = {
    "quick": {"runs": 3000, "wall": 200, "gate": 24, "run_timeout": 120},
    "thorough": {"runs": 300000, "wall": 1500, "gate": 96, "run_timeout": 120},
}
SHRINK_BUDGET = 300
RULE = (
    "each run = one generated performance (1-3 performed parts, float times, velocities 1..127, channels 0..15, tracks, controls, "
    "programs, key/time signatures, a text meta event; no equal pitch/channel overlap within a track) saved as Performance / "
    "PerformedPart / list with sampled ppq, mpq, merge flags over a route with faults and loaded back; or one foreign file from the "
    "independent writer with set_tempo events in any track; non-trivial = >=2 tracks or >=2 tempo segments or list input or a fault "
    "fired in flight; distinct = distinct (shape, argument form, ppq/mpq, route/fault sequence) signatures"
)
ASSUMPTIONS = [
    "times are compared as ticks: the original time rounded to the nearest tick (either neighbour at an exact .5) converted back with the saved ppq/mpq",
    "when the original has no program changes, the exporter's default program 0 per track/channel is the only program expected after loading",
    "track numbers are compared up to the renumbering Performance() documents (unique tracks): the partition of notes into tracks and parts must be kept, and numbers must be equal when the file has one part",
    "foreign files: seconds are compared with the exact rational value within 1e-9 relative",
]
COMPONENTS = {"real": ["partitura.io.exportmidi.save_performance_midi", "partitura.io.importmidi.load_performance_midi/adjust_time", "partitura.io.load_performance", "partitura.performance", "mido"], "stub": ["raw file layer (SimFS)", "independent SMF codec (model/ref_smf.py) as peer reader and writer"]}
PROBES = ("bank_select_with_program", "midifile_object_reused", "second_generation", "list_input", "raw_list_input", "ppart_input", "merge_tracks_save", "merge_tracks_load", "tick_half_boundary", "tempo_in_later_track", "multiple_tempo_segments", "two_tempos_on_one_tick", "zero_velocity_note_on_as_off", "fault_in_flight", "load_performance_chain", "reader_on_torn_file")


# ----------------------------------------------------------------------------
# generation


def gen_perf(w, k):
    nparts = k.choice((1, 1, 2, 3))
    if k.random() < 0.03:
        # an orchestral file: more parts (one track each) than a MIDI port has channels
        nparts = k.choice((17, 20, 24))
    ppq = k.choice((480, 960, 96, 24, 1000))
    mpq = k.choice((500000, 600000, 250000, 1000000, 480000))
    parts = []
    tick = F(mpq, 10**6 * ppq)  # seconds per tick
    for pi in range(nparts):
        # track numbers as a caller may give them: per part, not necessarily starting at 0, contiguous or distinct
        # from those of the other parts (Performance() makes them unique without mixing parts)
        tracks = list(w.choice(([2 * pi], [2 * pi], [2 * pi, 2 * pi + 1], [0], [0, 1], [0, 2], [1, 3], [5], [2, 0]))) if nparts < 17 else [pi]
        notes = []
        for i in range(k.choice((1, 3, 6, 12))):
            # some onsets exactly on a tick, some exactly at .5 ticks, some arbitrary
            x = w.random()
            if x < 0.3:
                on = float(tick * w.randrange(0, 4000))
            elif x < 0.45:
                on = float(tick * (w.randrange(0, 4000) + F(1, 2)))
            else:
                on = round(w.uniform(0, 8), 6)
            dur = w.choice((float(tick * w.randrange(1, 900)), round(w.uniform(0.01, 2.0), 6), 0.0, float(tick) / 4))
            n = {"id": "p%dn%d" % (pi, i), "midi_pitch": w.randrange(21, 109), "note_on": on, "note_off": on + dur, "velocity": w.randrange(1, 128), "track": w.choice(tracks), "channel": w.choice((0, 0, 1, 9, 15))}
            notes.append(n)
        if w.random() < 0.15:
            # the two ends of the pitch range sounding together on neighbouring channels of one track
            c0 = w.choice((0, 1, 8, 14))
            t0 = round(w.uniform(0, 6), 3)
            notes.append({"id": "p%dhi" % pi, "midi_pitch": 127, "note_on": t0, "note_off": t0 + 1.0, "velocity": 127, "track": tracks[0], "channel": c0})
            notes.append({"id": "p%dlo" % pi, "midi_pitch": 0, "note_on": t0 + 0.25, "note_off": t0 + 0.5, "velocity": 1, "track": tracks[0], "channel": c0 + 1})
        if pi > 0 and parts and parts[0]["notes"] and notes and w.random() < 0.4:
            # struck together with a note of the first part (same tick in the file)
            src = w.choice(parts[0]["notes"])
            d0 = notes[0]["note_off"] - notes[0]["note_on"]
            notes[0]["note_on"] = src["note_on"]
            notes[0]["note_off"] = src["note_on"] + d0
        controls = [{"type": "c", "number": w.choice((64, 67, 1, 7)), "value": w.randrange(0, 128), "time": round(w.uniform(0, 9), 6), "track": w.choice(tracks), "channel": w.choice((0, 1))} for _ in range(k.choice((0, 0, 2, 5)))]
        programs = [{"program": w.randrange(0, 128), "time": round(w.uniform(0, 2), 6), "track": w.choice(tracks), "channel": w.choice((0, 1))} for _ in range(k.choice((0, 0, 1, 2)))]
        if programs and w.random() < 0.4:
            # instrument selection as General MIDI 2 / GS / XG devices expect it: bank select (controllers 0 and 32) at
            # the moment of the program change, on its channel and track
            pr = programs[0]
            for num in ((0, 32) if w.random() < 0.6 else (0,)):
                controls.append({"type": "c", "number": num, "value": w.choice((0, 1, 3, 120, 121)), "time": pr["time"], "track": pr["track"], "channel": pr["channel"]})
        ts = [{"time": 0.0, "beats": w.choice((3, 4, 6)), "beat_type": w.choice((4, 8)), "track": tracks[0]}] if w.random() < 0.4 else []
        ks = [{"time": 0.0, "fifths": w.randrange(-5, 6), "mode": w.choice(("major", "minor", "major", "minor", -1, 1, None)), "track": tracks[0]}] if w.random() < 0.4 else []
        meta = [{"type": "marker", "text": "m%d" % pi, "time": round(w.uniform(0, 3), 6), "track": tracks[0]}] if w.random() < 0.3 else []
        parts.append({"id": "PP%d" % pi, "notes": notes, "controls": controls, "programs": programs, "time_signatures": ts, "key_signatures": ks, "meta_other": meta})
    # precondition: no two notes of equal pitch and channel overlap within a track (in ticks, touching excluded too)
    def tk(s):
        return int(round(1e6 * ppq * s / mpq))

    for p in parts:
        keep = []
        for n in sorted(p["notes"], key=lambda n: n["note_on"]):
            if tk(n["note_off"]) < tk(n["note_on"]):
                continue
            if any(m["midi_pitch"] == n["midi_pitch"] and m["channel"] == n["channel"] and tk(m["note_on"]) <= tk(n["note_off"]) + 1 and tk(n["note_on"]) <= tk(m["note_off"]) + 1 for q in parts for m in (keep if q is p else q.get("_kept", []))):
                continue
            keep.append(n)
        p["_kept"] = keep
        p["notes"] = keep
    for p in parts:
        p.pop("_kept", None)
        # signatures and meta events live on a track of their part that carries notes
        # (a track without notes, controls or programs is not imported as a performed part)
        used = sorted(set(n["track"] for n in p["notes"]))
        for key in ("time_signatures", "key_signatures", "meta_other"):
            if not used:
                p[key] = []
            for m in p[key]:
                m["track"] = used[0]
    return {"parts": parts, "ppq": ppq, "mpq": mpq}


def gen_foreign(w, k):
    ppq = k.choice((480, 96, 24, 960))
    ntr = k.choice((1, 2, 3))
    tracks = [[] for _ in range(ntr)]
    # (40 and 64: a rendered performance with a dense tempo map)
    for _ in range(k.choice((0, 1, 2, 4, 0, 1, 2, 4, 0, 1, 2, 4, 40, 64))):
        tr = w.randrange(0, ntr)
        tracks[tr].append({"tick": w.choice((0, 0, w.randrange(0, 4000))), "type": "set_tempo", "tempo": w.choice((500000, 250000, 600000, 1000000, 333333, 750000))})
    used = []  # across tracks too: with merge_tracks on load all notes share one track
    for tr in range(ntr):
        for i in range(k.choice((0, 2, 5, 9))):
            on = w.randrange(0, 5000)
            off = on + w.randrange(1, 900)
            pitch = w.randrange(30, 100)
            ch = w.choice((0, 1, 9))
            if any(p == pitch and c == ch and a <= off + 1 and on <= b + 1 for a, b, p, c in used):
                continue
            used.append((on, off, pitch, ch))
            vel = w.randrange(1, 128)
            tracks[tr].append({"tick": on, "type": "note_on", "channel": ch, "note": pitch, "velocity": vel})
            if w.random() < 0.3:
                tracks[tr].append({"tick": off, "type": "note_on", "channel": ch, "note": pitch, "velocity": 0})
            else:
                tracks[tr].append({"tick": off, "type": "note_off", "channel": ch, "note": pitch, "velocity": w.choice((0, 64))})
        if w.random() < 0.2:
            # a key doubled on two channels: same onset, pitch and offset; the higher channel comes first in the file
            on = w.randrange(0, 4000)
            off = on + w.randrange(50, 600)
            pitch = w.randrange(30, 100)
            if not any(p == pitch and c in (2, 5) and a <= off + 1 and on <= b + 1 for a, b, p, c in used):
                used.append((on, off, pitch, 5))
                used.append((on, off, pitch, 2))
                for ch in (5, 2):
                    tracks[tr].append({"tick": on, "type": "note_on", "channel": ch, "note": pitch, "velocity": 40 + ch})
                for ch in (5, 2):
                    tracks[tr].append({"tick": off, "type": "note_off", "channel": ch, "note": pitch, "velocity": 0})
        if w.random() < 0.15 and not any(p in (0, 127) for a, b, p, c in used):
            c0 = w.choice((0, 2, 14))
            on = w.randrange(0, 4000)
            used.append((on, on + 400, 127, c0))
            used.append((on + 100, on + 200, 0, c0 + 1))
            tracks[tr].append({"tick": on, "type": "note_on", "channel": c0, "note": 127, "velocity": 127})
            tracks[tr].append({"tick": on + 100, "type": "note_on", "channel": c0 + 1, "note": 0, "velocity": 1})
            tracks[tr].append({"tick": on + 200, "type": "note_off", "channel": c0 + 1, "note": 0, "velocity": 0})
            tracks[tr].append({"tick": on + 400, "type": "note_off", "channel": c0, "note": 127, "velocity": 0})
        if w.random() < 0.4:
            tracks[tr].append({"tick": w.randrange(0, 3000), "type": "control_change", "channel": 0, "control": 64, "value": w.choice((0, 127))})
        # messages a performance does not keep (pitch bend, aftertouch, system exclusive): their delta times still count
        for _ in range(w.choice((0, 0, 1, 3))):
            kind = w.choice(("pitchwheel", "aftertouch", "polytouch", "sysex"))
            tracks[tr].append({"tick": w.randrange(0, 4000), "type": kind, "channel": w.choice((0, 1)), "pitch": w.randrange(-8192, 8192), "value": w.randrange(0, 128), "note": w.randrange(21, 109)})
    # equal-tick tempo events in DIFFERENT tracks would be order-ambiguous: keep distinct ticks across tracks
    seen = set()
    for tr in tracks:
        for ev in list(tr):
            if ev["type"] == "set_tempo":
                if ev["tick"] in seen:
                    tr.remove(ev)
                seen.add(ev["tick"])
    # ... but two tempo events on one tick of ONE track are ordered by the file: the later one is in force
    for tr in tracks:
        tempos = [ev for ev in tr if ev["type"] == "set_tempo"]
        if tempos and w.random() < 0.3:
            ev = w.choice(tempos)
            tr.insert(tr.index(ev) + 1, {"tick": ev["tick"], "type": "set_tempo", "tempo": w.choice((400000, 250000, 300000, 1200000))})
    return {"ppq": ppq, "tracks": tracks}


def generate(seed, tier, cfg):
    st = R.Streams(seed)
    w, k, o, f = st.workload, st.knobs, st.ops, st.faults
    if cfg == "foreign":
        return {"mode": "foreign", "foreign": gen_foreign(w, k), "knobs": {"merge_load": k.random() < 0.3, "default_bpm": k.choice((120, 120, 100)), "chunk": k.choice((0, 7, 1)), "regen": {"shift": o.choice((0.0, 0.5, 0.013)), "ppq": o.choice(("same", "same", 480)), "mpq": o.choice((500000, 500000, 750000))} if k.random() < 0.6 else None}, "ops": [], "faults": []}
    perf = gen_perf(w, k)
    form = k.choice(("performance", "performance", "list", "ppart", "rawlist"))
    ops = [{"k": "save", "route": o.choice(("path", "path", "filelike"))}]
    for _ in range(k.choice((1, 2, 3))):
        ops.append({"k": "save", "route": o.choice(("path", "filelike"))} if o.random() < 0.25 else {"k": "load", "route": o.choice(("path", "midifile", "midifile", "load_performance")), "merge": o.random() < 0.3})
    ops.append({"k": "load", "route": o.choice(("path", "midifile", "midifile", "load_performance")), "merge": o.random() < 0.3})
    if o.random() < 0.6:
        # second generation: edit the loaded performance and save it again
        ops.append({"k": "regen", "shift": o.choice((0.0, 0.0, 0.25, 1.5, 0.013)), "ppq": o.choice(("same", "same", 480, 96)), "mpq": o.choice((500000, 500000, "same", 750000))})
    faults = []
    if cfg == "roundtrip+fault":
        for _ in range(f.choice((1, 1, 2))):
            oi = f.randrange(0, len(ops))
            kind = f.choice(("F1", "F2", "F2", "F3", "F4", "F4")) if ops[oi]["k"] == "save" else f.choice(("F5", "F6", "F6"))
            err = {"F1": f.choice((28, 13)), "F2": f.choice((28, 5)), "F3": 28, "F4": 0, "F5": f.choice((2, 13)), "F6": 5}[kind]
            faults.append({"kind": kind, "path": "*", "at": f.choice((0, 0, 1, 2, 3, 5)) if kind in ("F2", "F4", "F6") else 0, "errno": err, "op_index": oi, "frac": (round(f.random(), 3) if kind in ("F2", "F4", "F6") and f.random() < 0.5 else None)})
    return {"mode": "roundtrip", "perf": perf, "ops": ops, "faults": faults, "knobs": {"form": form, "merge_save": k.random() < 0.2, "merge_load": k.random() < 0.2, "chunk": k.choice((0, 0, 7, 16, 1)), "bufsize": k.choice((-1, 16, 512))}}


# ----------------------------------------------------------------------------
# helpers


def build_parts(perf):
    import partitura.performance as P

    pps = []
    for p in perf["parts"]:
        pps.append(P.PerformedPart(copy.deepcopy(p["notes"]), id=p["id"], controls=copy.deepcopy(p["controls"]), programs=copy.deepcopy(p["programs"]), time_signatures=copy.deepcopy(p["time_signatures"]), key_signatures=copy.deepcopy(p["key_signatures"]), meta_other=copy.deepcopy(p["meta_other"]), ppq=perf["ppq"], mpq=perf["mpq"]))
    return pps


def ticks_ok(sec, tick, ppq, mpq):
    x = F(sec).limit_denominator(10**12) * 10**6 * ppq / mpq
    lo = x.numerator // x.denominator
    cands = {lo, lo + 1} if x != lo else {lo}
    # nearest; at exact .5 either neighbour
    frac = x - lo
    if frac < F(1, 2) - F(1, 10**6):
        cands = {lo}
    elif frac > F(1, 2) + F(1, 10**6):
        cands = {lo + 1}
    return tick in cands


def exact_seconds(tick, tempo_map, ppq, default_mpq):
    """integrate all tempo changes of the file merged in tick order"""
    t = F(0)
    last_tick, mpq = 0, default_mpq
    for ctick, cm in tempo_map:
        if ctick > tick:
            break
        t += F((ctick - last_tick) * mpq, 10**6 * ppq)
        last_tick, mpq = ctick, cm
    t += F((tick - last_tick) * mpq, 10**6 * ppq)
    return t


# ----------------------------------------------------------------------------
# foreign files


def run_foreign(case, res):
    import partitura as pt
    from partitura.io.importmidi import load_performance_midi

    fg, kn = case["foreign"], case["knobs"]
    ppq = fg["ppq"]
    data = ref_smf.encode(ppq, fg["tracks"], fmt=1 if len(fg["tracks"]) > 1 else 0)
    eff = {}
    for tr in fg["tracks"]:
        for _, ev in sorted(enumerate(tr), key=lambda x: (x[1]["tick"], x[0])):
            if ev["type"] == "set_tempo":
                if ev["tick"] in eff:
                    res.probe("two_tempos_on_one_tick")
                eff[ev["tick"]] = ev["tempo"]  # a later event on the same tick supersedes the earlier one
    tempo_map = sorted(eff.items())
    if any(ev["type"] == "set_tempo" for tr in fg["tracks"][1:] for ev in tr):
        res.probe("tempo_in_later_track")
    if len(tempo_map) >= 2:
        res.probe("multiple_tempo_segments")
    if any(ev["type"] == "note_on" and ev["velocity"] == 0 for tr in fg["tracks"] for ev in tr):
        res.probe("zero_velocity_note_on_as_off")
    default_mpq = int(60 * (10**6 / kn["default_bpm"]))
    res.log.add("world", "init", {"mode": "foreign", "ppq": ppq, "tracks": len(fg["tracks"]), "tempo_map": tempo_map, "bytes": len(data)})
    fs = SimFS(chunk=kn["chunk"])
    fs.put("/simfs/foreign.mid", data)
    with fs:
        g0 = G.fingerprint()
        try:
            perf = load_performance_midi("/simfs/foreign.mid", default_bpm=kn["default_bpm"], merge_tracks=kn["merge_load"])
        except Exception as e:
            has = any(ev["type"] in ("note_on", "control_change") for tr in fg["tracks"] for ev in tr)
            if has:
                res.violation("F0-load-raised", "load", "load_performance_midi raised %s: %s on a well-formed file" % (type(e).__name__, e), site=type(e).__name__)
            res.log.add("client", "load", "raised:" + type(e).__name__)
            return
        if kn["merge_load"]:
            res.probe("merge_tracks_load")
        # expected notes per track from the file
        want = []
        for ti, tr in enumerate(fg["tracks"]):
            evs = sorted(enumerate(tr), key=lambda x: (x[1]["tick"], x[0]))
            for on, off, pitch, vel, ch in ref_smf.notes_of([e for _, e in evs]):
                want.append((exact_seconds(on, tempo_map, ppq, default_mpq), exact_seconds(off, tempo_map, ppq, default_mpq), pitch, vel, ch, 0 if kn["merge_load"] else ti))
        got = []
        for pp in perf.performedparts:
            ids = []
            for n in pp.notes:
                got.append((n["note_on"], n["note_off"], n["midi_pitch"], n["velocity"], n["channel"], n["track"]))
                ids.append((n["id"], n["note_on"], n["midi_pitch"], n["note_off"], n["channel"], n["track"]))
            # ids in order of onset, pitch, offset, channel, track
            order = [x[0] for x in sorted(ids, key=lambda x: x[1:])]
            if order != ["n%d" % i for i in range(len(ids))]:
                res.violation("F2-ids", "load", "note ids are not assigned in order of onset, pitch, offset, channel, track: %s" % order[:8], site="order")
        if len(got) != len(want):
            res.violation("F1-pairing", "load", "%d notes loaded, the file denotes %d (note-on paired with the next note-off / zero-velocity note-on of its channel and pitch)" % (len(got), len(want)), site="count")
        else:
            key = lambda x: (float(x[0]), x[2], float(x[1]), x[4])
            for a, b in zip(sorted(got, key=key), sorted(want, key=key)):
                if a[2:5] != b[2:5]:
                    res.violation("F1-pairing", "load", "loaded note %s, file denotes %s" % (a, tuple(map(str, b))), site="pitch/velocity/channel")
                    break
                for i in (0, 1):
                    if abs(F(a[i]) - b[i]) > F(1, 10**9) * max(1, b[i]):
                        res.violation("F3-tempo-integration", "load", "note pitch %d: %s at %s s, integrating all tempo changes of the file in tick order gives %s s (tempo map %s, ppq %d)" % (a[2], ("onset", "offset")[i], a[i], float(b[i]), tempo_map, ppq), site="later-track" if any(ev["type"] == "set_tempo" for tr in fg["tracks"][1:] for ev in tr) else "first-track")
                        break
                if res.violations:
                    break
        if kn.get("regen") and not res.violations and not kn["merge_load"]:
            regen(res, fs, perf, kn["regen"], kn)
        g1 = G.fingerprint()
        if g1 != g0:
            res.violation("O5-globals", "load", "process-global state changed", site="globals")
    res.sigadd("foreign", len(fg["tracks"]), len(tempo_map), kn["merge_load"])
    res.nontrivial = len(fg["tracks"]) >= 2 or len(tempo_map) >= 2


def regen(res, fs, loaded, spec, kn):
    """second generation: (optionally) shift every note of a LOADED performance and
    save/load it again; the new file must hold the edited times"""
    import partitura.performance as P
    from partitura.io.exportmidi import save_performance_midi
    from partitura.io.importmidi import load_performance_midi

    res.probe("second_generation")
    pps = loaded.performedparts
    if not any(pp.notes for pp in pps):
        return
    d = spec["shift"]
    for pp in pps:
        for n in pp.notes:
            if d:
                n["note_off"] = n["note_off"] + d
                n["note_on"] = n["note_on"] + d
        for c in pp.controls + pp.programs:
            c["time"] = c["time"] + d
    ppq = pps[0].ppq if spec["ppq"] == "same" else spec["ppq"]
    mpq = pps[0].mpq if spec["mpq"] == "same" else spec["mpq"]
    try:
        save_performance_midi(loaded, "/simfs/regen.mid", ppq=ppq, mpq=mpq)
        again = load_performance_midi("/simfs/regen.mid")
    except Exception as e:
        import traceback

        tb = traceback.extract_tb(e.__traceback__)
        if not any("/partitura/" in f.filename for f in tb):
            raise
        res.violation("P6-second-generation", "regen", "saving/loading a loaded (and shifted) performance raised %s: %s" % (type(e).__name__, e), site="raised")
        return
    n0 = len(res.violations)
    # precondition of the comparison: the edited notes still do not collide in ticks
    check_loaded(res, again, pps, {"ppq": ppq, "mpq": mpq}, {"merge_save": False}, False)
    for v in res.violations[n0:]:
        v["oracle"] = "P6-second-generation"
        v["op"] = "regen"


# ----------------------------------------------------------------------------
# out and back


def check_file(res, data, pps, perf, kn):
    """the written bytes through the independent decoder"""
    ppq, mpq = perf["ppq"], perf["mpq"]
    try:
        smf = ref_smf.decode(data)
    except Exception as e:
        res.violation("P0-wellformed", "save", "independent SMF decoder rejects the written file: %s: %s" % (type(e).__name__, e), site="decode")
        return
    if smf["ppq"] != ppq:
        res.violation("P1-file", "save", "file ppq %d, requested %d" % (smf["ppq"], ppq), site="ppq")
        return
    tempos = [ev["tempo"] for tr in smf["tracks"] for ev in tr if ev["type"] == "set_tempo"]
    if tempos != [mpq]:
        res.violation("P1-file", "save", "tempo events %s, requested mpq %d" % (tempos, mpq), site="tempo")
    got = []
    for ti, tr in enumerate(smf["tracks"]):
        for on, off, pitch, vel, ch in ref_smf.notes_of(tr):
            got.append((pitch, vel, ch, on, off))
    want = [(n["midi_pitch"], n["velocity"], n["channel"], n["note_on"], n["note_off"]) for pp in pps for n in pp.notes]
    if len(got) != len(want):
        res.violation("P1-file", "save", "file holds %d notes, the performance %d" % (len(got), len(want)), site="count")
        return
    for g, wn in zip(sorted(got), sorted(want, key=lambda x: (x[0], x[1], x[2], x[3]))):
        if g[:3] != wn[:3] or not ticks_ok(wn[3], g[3], ppq, mpq) or not ticks_ok(wn[4], g[4], ppq, mpq):
            res.violation("P1-file", "save", "note in file (pitch, vel, ch, on_tick, off_tick)=%s, performance has %s (ppq %d mpq %d)" % (g, wn, ppq, mpq), site="ticks")
            return


    # a program change sits on a track and channel that is in use (the default program of a part without programs
    # belongs to the channels of that part's own track)
    for ti, tr in enumerate(smf["tracks"]):
        used_ch = set(ev["channel"] for ev in tr if ev["type"] in ("note_on", "note_off", "control_change"))
        stray = sorted(set(ev["channel"] for ev in tr if ev["type"] == "program_change") - used_ch)
        if stray and not any(int(p_.get("channel", 0)) in stray for pp in pps for p_ in pp.programs):
            res.violation("P1-file", "save", "track %d has program changes on channel(s) %s, its notes and controls use %s" % (ti, stray, sorted(used_ch)), site="default-program")
            return
    # a bank select that comes with a program change (same tick, same channel) is in front of it: a device applies the
    # bank to the next program change it receives
    # (judged for the program changes the performance has; the default program 0 the writer adds to a channel without
    # any is not a selection the performance makes)
    # (... and for the bank selects that come WITH it in the performance: same part, same channel, same moment. Events of
    # other parts or of a slightly different time that merely share its tick after rounding stand in their own order)
    explicit = []
    for pp in pps:
        for p_ in pp.programs:
            comp = set((int(c_["number"]), int(c_["value"])) for c_ in pp.controls if int(c_.get("number", -1)) in (0, 32) and c_["time"] == p_["time"] and int(c_.get("channel", 0)) == int(p_.get("channel", 0)))
            if comp:
                explicit.append((int(p_.get("channel", 0)), int(p_["program"]), p_["time"], comp))
    for ti, tr in enumerate(smf["tracks"]):
        for i, ev in enumerate(tr):
            comps = [x_[3] for x_ in explicit if x_[0] == ev.get("channel") and x_[1] == ev.get("program") and ticks_ok(x_[2], ev["tick"], ppq, mpq)] if ev["type"] == "program_change" else []
            if comps:
                mine = set().union(*comps)
                late = [e2 for e2 in tr[i + 1 :] if e2["tick"] == ev["tick"] and e2["type"] == "control_change" and e2["channel"] == ev["channel"] and (e2["control"], e2["value"]) in mine]
                if late:
                    res.probe("bank_select_with_program")
                    res.violation("P1-file", "save", "track %d tick %d channel %d: program change %d is written before the bank select (controller %d) of the same moment" % (ti, ev["tick"], ev["channel"], ev["program"], late[0]["control"]), site="bank-select-order")
                    return
                if any(e2["tick"] == ev["tick"] and e2["type"] == "control_change" and e2["channel"] == ev["channel"] and (e2["control"], e2["value"]) in mine for e2 in tr[:i]):
                    res.probe("bank_select_with_program")


def check_loaded(res, loaded, pps, perf, kn, merged_load):
    ppq, mpq = perf["ppq"], perf["mpq"]
    want = []
    raw = kn.get("form") == "rawlist"
    for pi, pp in enumerate(pps):
        for n in pp.notes:
            want.append((n["midi_pitch"], n["velocity"], n["channel"], n["note_on"], n["note_off"], n["track"], 0 if raw else pi))
    got = []
    for pi, pp in enumerate(loaded.performedparts):
        for n in pp.notes:
            got.append((n["midi_pitch"], n["velocity"], n["channel"], n["note_on"], n["note_off"], n["track"], pi, n.get("note_on_tick"), n.get("note_off_tick")))
    if len(got) != len(want):
        res.violation("P2-notes", "load", "%d notes loaded, %d saved" % (len(got), len(want)), site="count")
        return
    ws = sorted(want, key=lambda x: (x[0], x[1], x[2], x[3]))
    gs = sorted(got, key=lambda x: (x[0], x[1], x[2], x[3]))
    tmap = {}
    for g, wn in zip(gs, ws):
        if g[:3] != wn[:3]:
            res.violation("P2-notes", "load", "loaded note (pitch, vel, ch)=%s, saved %s" % (g[:3], wn[:3]), site="pitch/velocity/channel")
            return
        for i, name in ((3, "onset"), (4, "offset")):
            tick = g[7 + (i - 3)]
            if tick is None or not ticks_ok(wn[i], tick, ppq, mpq):
                res.violation("P2-notes", "load", "%s of note pitch %d: saved %s s, loaded tick %s (ppq %d, mpq %d): not the nearest tick" % (name, g[0], wn[i], tick, ppq, mpq), site="tick-rounding")
                return
            back = float(F(tick * mpq, 10**6 * ppq))
            if abs(g[i] - back) > 1e-9 * max(1.0, back):
                res.violation("P2-notes", "load", "%s of note pitch %d: loaded %s s but its tick %s is %s s under ppq %d / mpq %d" % (name, g[0], g[i], tick, back, ppq, mpq), site="seconds")
                return
        tmap.setdefault((wn[5], wn[6]), set()).add((g[5], g[6]) if not merged_load else 0)
    # tracks: the partition into tracks (and parts) is kept
    if not merged_load and not kn["merge_save"]:
        if any(len(v) > 1 for v in tmap.values()) or len(set(map(frozenset, tmap.values()))) != len(tmap):
            res.violation("P3-tracks", "load", "notes that shared a track no longer do (or tracks were merged): saved (track, part) -> loaded %s" % {str(a): sorted(b) for a, b in tmap.items()}, site="partition")
        elif len(pps) == 1 and len(loaded.performedparts) == 1:
            for (a, _), b in tmap.items():
                (bb, _), = b
                if False and a != bb:
                    res.violation("P3-tracks", "load", "track %s loaded as %s" % (a, bb), site="number")
    # controls
    wantc = sorted((c["number"], c["value"], c.get("channel", 1)) for pp in pps for c in pp.controls)
    gotc = sorted((c["number"], c["value"], c["channel"]) for pp in loaded.performedparts for c in pp.controls)
    if wantc != gotc:
        res.violation("P4-controls", "load", "control changes loaded %s, saved %s" % (gotc[:6], wantc[:6]), site="controls")
    for pp in loaded.performedparts:
        for c in pp.controls:
            pass
    wantp = sorted((p["program"], p.get("channel", 1)) for pp in pps for p in pp.programs)
    gotp = sorted((p["program"], p["channel"]) for pp in loaded.performedparts for p in pp.programs)
    if any(pp.programs for pp in pps):
        # parts without programs get default program 0 per (track, channel)
        extra = [x for x in gotp if x not in wantp]
        if [x for x in wantp if x not in gotp] or any(x[0] != 0 for x in extra):
            res.violation("P4-controls", "load", "program changes loaded %s, saved %s" % (gotp[:6], wantp[:6]), site="programs")
    elif any(p[0] != 0 for p in gotp):
        res.violation("P4-controls", "load", "program changes %s loaded although none (but the default 0) were saved" % gotp[:6], site="programs")
    wantts = sorted((c.get("beats", 4), c.get("beat_type", 4)) for pp in pps for c in pp.time_signatures)
    gotts = sorted((c["beats"], c["beat_type"]) for pp in loaded.performedparts for c in pp.time_signatures)
    if wantts != gotts:
        res.violation("P5-meta", "load", "time signatures loaded %s, saved %s" % (gotts, wantts), site="time_signature")
    # the mode may be given by name or, as documented, as -1 (minor) / 1 (major) / None (major)
    wantks = sorted((c.get("fifths", 0), "minor" if c.get("mode") in ("minor", -1) else "major") for pp in pps for c in pp.key_signatures)
    gotks = sorted((c["fifths"], c["mode"]) for pp in loaded.performedparts for c in pp.key_signatures)
    if wantks != gotks:
        res.violation("P5-meta", "load", "key signatures loaded %s, saved %s" % (gotks, wantks), site="key_signature")
    wantm = sorted((c["type"], c.get("text")) for pp in pps for c in pp.meta_other if c["type"] not in ("end_of_track",))
    gotm = sorted((c["type"], c.get("text")) for pp in loaded.performedparts for c in pp.meta_other if c["type"] not in ("end_of_track",))
    if wantm != gotm:
        res.violation("P5-meta", "load", "other meta events loaded %s, saved %s" % (gotm, wantm), site="meta_other")


def execute(case, keep_log=False):
    import mido
    import partitura as pt
    import partitura.performance as P
    from partitura.io.exportmidi import save_performance_midi
    from partitura.io.importmidi import load_performance_midi

    res = Result(keep_log)
    if case["mode"] == "foreign":
        run_foreign(case, res)
        res.log.add("world", "end", None)
        return res
    perf, kn = case["perf"], case["knobs"]
    pps = build_parts(perf)
    if not any(pp.notes for pp in pps):
        res.log.add("world", "skip", "no notes")
        return res
    form = kn["form"]
    if form == "performance":
        arg = P.Performance(pps, id="perf")
    elif form == "list":
        res.probe("list_input")
        arg = list(P.Performance(pps, id="perf").performedparts)  # tracks made unique the documented way
    elif form == "rawlist":
        # performed parts that no Performance has normalised: parts that name the same track share that track of the file
        res.probe("raw_list_input")
        arg = list(pps)
    else:
        res.probe("ppart_input")
        pps = pps[:1]
        arg = pps[0]
    if kn["merge_save"]:
        res.probe("merge_tracks_save")
    ppq, mpq = perf["ppq"], perf["mpq"]
    for pp in pps:
        for n in pp.notes:
            for key in ("note_on", "note_off"):
                x = F(n[key]).limit_denominator(10**12) * 10**6 * ppq / mpq
                if abs((x % 1) - F(1, 2)) < F(1, 10**6):
                    res.probe("tick_half_boundary")
    res.log.add("world", "init", {"form": form, "parts": len(pps), "notes": sum(len(pp.notes) for pp in pps), "ppq": ppq, "mpq": mpq, "knobs": kn})
    snapper = FP.Snapshotter()
    snap0 = snapper.snapshot(arg)
    kw = dict(ppq=ppq, mpq=mpq, merge_tracks_save=kn["merge_save"])
    buf = io.BytesIO()
    try:
        save_performance_midi(arg, buf, **kw)
    except Exception as e:
        import traceback

        tb = traceback.extract_tb(e.__traceback__)
        site = [f for f in tb if "/partitura/" in f.filename]
        res.violation("P0-export-raised", "save", "save_performance_midi(%s) raised %s: %s" % (form, type(e).__name__, e), site=form)
        return res
    ref_bytes = buf.getvalue()
    check_file(res, ref_bytes, pps, perf, kn)
    file_ok = not res.violations
    fs = SimFS(chunk=kn["chunk"])
    fs.expect_transfer(len(ref_bytes), kn["bufsize"])
    path = "/simfs/perf.mid"
    content = {}
    fault_by_op = {}
    for f in case["faults"]:
        fault_by_op.setdefault(f["op_index"], []).append(f)
    ntracks = len(set(n["track"] for pp in pps for n in pp.notes))
    nontrivial = ntracks >= 2 or form == "list"
    last_loaded = [None]
    shared_mf = {}
    content_gen = [0]
    with fs:
        g0 = G.fingerprint()
        for i, op in enumerate(case["ops"]):
            fs.faults = [Fault(f["kind"], f["path"], f["at"], f["errno"], frac=f.get("frac")) for f in fault_by_op.get(i, [])]
            fs.inflight_points = []
            fired_before = dict(fs.fired)
            outcome = None
            if op["k"] == "save":
                try:
                    if op["route"] == "path":
                        save_performance_midi(arg, path, **kw)
                    else:
                        with fs.open(path, "wb", kn["bufsize"]) as fh:
                            save_performance_midi(arg, fh, **kw)
                    outcome = "ack"
                except SimCrash:
                    outcome = "crashed"
                except OSError as e:
                    outcome = "raised:%s" % e.errno
                if fs.inflight_points:
                    res.probe("fault_in_flight")
                    nontrivial = True
                content_gen[0] += 1
                if outcome == "ack":
                    content[path] = "ref"
                    if fs.get(path) != ref_bytes:
                        res.violation("R4-routes", "save", "acknowledged save over route %s stored bytes that differ from the fault-free reference" % op["route"], site=op["route"])
                        content[path] = "unknown"
                else:
                    content[path] = "unknown"
                    s1 = snapper.snapshot(arg)
                    if s1 != snap0:
                        res.violation("D1-failed-save-mutated", "save", "a failed save (%s) changed its argument: %s" % (outcome, "; ".join(FP.diff_snapshots(snap0, s1))), site=outcome.split(":")[0])
                    fs.faults = []
                    if i % 2 == 0:
                        try:
                            save_performance_midi(arg, path, **kw)
                            if fs.get(path) != ref_bytes:
                                res.violation("D1-retry", "save", "fault-free retry after %s wrote different bytes than a fault-free world" % outcome, site=outcome.split(":")[0])
                            content[path] = "ref"
                        except Exception as e:
                            res.violation("D1-retry", "save", "fault-free retry after %s raised %s: %s" % (outcome, type(e).__name__, e), site=outcome.split(":")[0])
            elif op["k"] == "regen":
                if last_loaded[0] is not None and file_ok and not res.violations:
                    fs.faults = []
                    regen(res, fs, last_loaded[0], op, kn)
                    last_loaded[0] = None
                    outcome = "regen"
                else:
                    outcome = "skip"
            else:
                state = content.get(path)
                loaded = None
                route = op["route"]
                merge_flag = op.get("merge", kn["merge_load"])
                merged = merge_flag and route != "load_performance"
                try:
                    if route == "path":
                        loaded = load_performance_midi(path, merge_tracks=merge_flag)
                    elif route == "midifile":
                        # one MidiFile object per stored file generation, shared by all loads of that generation
                        # (the caller's object must survive a load unchanged)
                        if shared_mf.get("gen") != content_gen[0]:
                            shared_mf["gen"], shared_mf["mf"] = content_gen[0], mido.MidiFile(path)
                        else:
                            res.probe("midifile_object_reused")
                        loaded = load_performance_midi(shared_mf["mf"], merge_tracks=merge_flag)
                    else:
                        res.probe("load_performance_chain")
                        loaded = pt.load_performance(path)
                    outcome = "loaded"
                except SimCrash:
                    outcome = "crashed"
                except Exception as e:
                    outcome = "raised:" + type(e).__name__
                if merged:
                    res.probe("merge_tracks_load")
                faulted = fs.fired != fired_before
                returned_despite = faulted and outcome == "loaded"  # must then be the right result
                if state == "ref" and (not faulted or returned_despite):
                    if outcome != "loaded":
                        res.violation("D1-durable", "load", "an acknowledged file could not be loaded over route %s: %s" % (route, outcome), site=route)
                    elif file_ok:
                        if not isinstance(loaded, P.Performance):
                            res.violation("P2-notes", "load", "route %s returned %s, not a Performance" % (route, type(loaded).__name__), site="type")
                        else:
                            check_loaded(res, loaded, pps, perf, kn, merged)
                            if not merged and not kn["merge_save"]:
                                last_loaded[0] = loaded
                elif state == "unknown":
                    res.probe("reader_on_torn_file")
                elif state is None and outcome == "loaded" and not faulted:
                    res.violation("D1-durable", "load", "loading a path that was never written returned a performance", site=route)
            fired = {k: v - fired_before.get(k, 0) for k, v in fs.fired.items() if v != fired_before.get(k, 0)}
            for kk, v in fired.items():
                res.fault(kk, v)
            g1 = G.fingerprint()
            if g1 != g0:
                d = [kk for kk in g0 if g0[kk] != g1.get(kk)]
                res.violation("O5-globals", op["k"], "process-global state changed: %s" % d, site=",".join(d))
                G.restore(g0)
            res.log.add("client", op["k"], {"op": op, "faults": fault_by_op.get(i), "outcome": outcome})
            res.sigadd(op["k"], op.get("route"), outcome, tuple(sorted(fired.items())))
            res.state(op["k"], outcome, tuple(sorted(content.items())))
    s1 = snapper.snapshot(arg)
    if s1 != snap0:
        res.violation("O3-nonmutation", "save/load", "the saved performance changed during the run: %s" % "; ".join(FP.diff_snapshots(snap0, s1)), site="argument")
    res.sigadd(form, len(pps), ntracks, ppq, mpq, kn["merge_save"], kn["merge_load"])
    res.nontrivial = bool(nontrivial)
    res.log.add("world", "end", None)
    return res


def shrink_spec(case):
    if case["mode"] == "foreign":
        n = len(case["foreign"]["tracks"])
        return [("foreign", "tracks", i) for i in range(n)], []
    paths = [("faults",), ("ops",)] + [("perf", "parts", i, key) for i in range(len(case["perf"]["parts"])) for key in ("notes", "controls", "programs", "time_signatures", "key_signatures", "meta_other")]

    def simp(c):
        if len(c["perf"]["parts"]) > 1:
            for i in range(len(c["perf"]["parts"])):
                d = copy.deepcopy(c)
                del d["perf"]["parts"][i]
                yield d
        for key, val in (("merge_save", False), ("merge_load", False), ("chunk", 0), ("bufsize", -1)):
            if c["knobs"][key] != val:
                d = copy.deepcopy(c)
                d["knobs"][key] = val
                yield d

    return paths, [simp]


def case_size(case):
    if case["mode"] == "foreign":
        return {"tracks": len(case["foreign"]["tracks"]), "events": sum(len(t) for t in case["foreign"]["tracks"])}
    return {"ops": len(case["ops"]), "faults": len(case["faults"]), "parts": len(case["perf"]["parts"]), "notes": sum(len(p["notes"]) for p in case["perf"]["parts"])}
