"""C01 - the timeline machine (DESIGN 3.1).

Real code under simulation: partitura.score.Part / TimePoint / TimedObject and
subclasses, ComparableMixin, iter_subclasses, _OrderedSet.
The simulator owns: the operation history of one mutator client, the
interleaving of 0-2 suspended reader clients with it, and bad-argument faults.
Oracle: lock-step reference model (RefTimeline below) + invariants I1-I7 after
every event."""
import copy

from sim import rng as R
from sim import sched
from sim.result import Result

ID = "C01"
CONFIGS = ("history", "history+readers")
TIERS = {
    "quick": {"runs": 6000, "wall": 150, "gate": 32, "run_timeout": 60},
    "thorough": {"runs": 600000, "wall": 1500, "gate": 200, "run_timeout": 60},
}
SHRINK_BUDGET = 500
RULE = (
    "each run = one generated history (<=40 mutator ops over times 0..15, <=12 live objects from 20 classes incl. the "
    "direction diamond) interleaved by a recorded schedule with 0-2 suspended reader generators; a run is non-trivial "
    "when at least one removal, one quarter-duration overwrite at an existing change point, or one reader step after "
    "a mutation occurred; distinct = distinct sequences of (task, op kind, boundary situation) over the run"
)
ASSUMPTIONS = [
    "numpy searchsorted/insert/delete, CPython dict ordering are trusted",
    "order of objects within one time point is not specified by the property and not compared",
    "set_quarter_duration: 'next later change' is read as either the next explicitly set entry or the next change of "
    "value; a result agreeing with either reading is accepted (candidate-set model)",
    "adding an object on a side on which it is already registered, or with end < start, is API misuse and not generated",
]
COMPONENTS = {"real": ["partitura.score.Part", "TimePoint", "TimedObject subclasses", "partitura.utils.generic"], "stub": ["none (no I/O in this world)"]}
PROBES = (
    "remove_hit_first_point",
    "remove_hit_last_point",
    "remove_emptied_point",
    "setq_at_existing_change",
    "setq_equal_to_previous_at_existing_change",
    "add_equal_start_end",
    "reader_step_after_mutation",
    "reader_finished_unperturbed",
    "bad_argument_op",
    "query_with_timepoint_bounds",
    "explicit_empty_point",
    "views_crosscheck",
    "caller_defined_subclass",
)

CLASSES = [
    "TimedObject",
    "GenericNote",
    "Note",
    "GraceNote",
    "Rest",
    "UnpitchedNote",
    "Measure",
    "TimeSignature",
    "KeySignature",
    "Clef",
    "Slur",
    "Tempo",
    "Words",
    "Direction",
    "LoudnessDirection",
    "DynamicDirection",
    "ConstantLoudnessDirection",
    "DynamicLoudnessDirection",
    "IncreasingLoudnessDirection",
    "DecreasingLoudnessDirection",
    "Repeat",
    "Fermata",
]
QUERY_CLASSES = [None] + CLASSES + ["ConstantDirection", "TempoDirection"]
TMAX = 15
QS = (1, 2, 3, 4, 6, 8, 12)


USER_BASES = ("Note", "Rest", "Words", "LoudnessDirection", "Measure", "Fermata")


def base_name(clsname):
    """pool entries "User:<Base>" stand for a subclass of <Base> the caller defines himself - at the moment he first
    needs it, i.e. possibly after the part has been queried"""
    return clsname[5:] if clsname.startswith("User:") else clsname


def _mk(clsname, i, user_classes=None):
    import partitura.score as S

    c = getattr(S, base_name(clsname))
    if clsname.startswith("User:"):
        if user_classes is None:
            user_classes = {}
        if clsname not in user_classes:
            user_classes[clsname] = type("Caller" + base_name(clsname), (c,), {})
        c = user_classes[clsname]
        clsname = base_name(clsname)
    if clsname in ("Note",):
        return c("C", 4, 0, id="o%d" % i, voice=1, staff=1 + i % 2)
    if clsname == "GraceNote":
        return c("grace", "D", 4, 0, id="o%d" % i, voice=1, staff=1)
    if clsname == "UnpitchedNote":
        return c("E", 4, id="o%d" % i, voice=1, staff=1)
    if clsname in ("GenericNote", "Rest"):
        return c(id="o%d" % i, voice=1, staff=1)
    if clsname == "Measure":
        return c(number=i + 1)
    if clsname == "TimeSignature":
        return c((3, 4, 6)[i % 3], (4, 4, 8)[i % 3])
    if clsname == "KeySignature":
        return c((i % 5) - 2, "major")
    if clsname == "Clef":
        return c(1 + i % 2, "G", 2, 0)
    if clsname == "Tempo":
        return c(60 + i)
    if clsname == "Words":
        return c("w%d" % i)
    if clsname in ("Slur", "Repeat", "Fermata", "TimedObject"):
        return c()
    return c("d%d" % i)  # Direction family


# ----------------------------------------------------------------------------
# generation


def generate(seed, tier, cfg):
    st = R.Streams(seed)
    k = st.knobs
    npool = k.choice((3, 5, 8, 12))
    pool = [st.workload.choice(CLASSES) for _ in range(npool)]
    if k.random() < 0.3:
        for _ in range(k.choice((1, 2))):
            pool[st.workload.randrange(npool)] = "User:" + st.workload.choice(USER_BASES)
    # bias towards a small time range so boundaries are hit constantly
    tmax = k.choice((3, 6, 10, TMAX))
    nops = k.choice((6, 12, 20, 30, 40))
    o = st.ops
    ops = []
    for _ in range(nops):
        ops.append(_gen_op(o, npool, tmax))
    nreaders = 0
    if cfg == "history+readers":
        nreaders = k.choice((1, 1, 2))
    readers = []
    for _ in range(nreaders):
        q = _gen_query(o, tmax)
        readers.append({"q": q, "max": o.choice((2, 4, 8, 30))})
    policy = k.choice(("uniform", "bursty", "rr"))
    schedule = sched.gen_schedule(st.schedule, 1 + nreaders, nops + sum(r["max"] + 2 for r in readers) + 4, policy)
    return {"q0": k.choice(QS), "pool": pool, "ops": ops, "readers": readers, "schedule": schedule, "knobs": {"tmax": tmax, "policy": policy}}


def _gen_query(o, tmax):
    kind = o.choice(("iter_all", "iter_all", "nb"))
    cls = o.choice(QUERY_CLASSES)
    if kind == "iter_all":
        s = o.choice((None, None, o.randrange(0, tmax + 2)))
        e = o.choice((None, None, o.randrange(0, tmax + 3)))
        return {"k": "q_iter_all", "cls": cls, "s": s, "e": e, "sub": o.random() < 0.5, "mode": o.choice(("starting", "starting", "ending")), "tp": o.random() < 0.3}
    return {"k": "q_nb", "i": o.randrange(0, 20), "dir": o.choice(("prev", "next")), "cls": cls if cls else "TimedObject", "eq": o.random() < 0.5, "sub": o.random() < 0.6}


def _gen_op(o, npool, tmax):
    x = o.random()
    if x < 0.34:
        s = o.randrange(0, tmax + 1)
        which = o.random()
        if which < 0.6:
            e = s + o.choice((0, 0, 1, 1, 2, 3, 5))
            return {"k": "add", "o": o.randrange(npool), "s": s, "e": min(e, tmax + 2)}
        if which < 0.8:
            return {"k": "add", "o": o.randrange(npool), "s": s, "e": None}
        return {"k": "add", "o": o.randrange(npool), "s": None, "e": s}
    if x < 0.56:
        return {"k": "rm", "o": o.randrange(npool), "w": o.choice(("both", "both", "start", "end"))}
    if x < 0.68:
        return {"k": "setq", "t": o.randrange(0, tmax + 1), "q": o.choice(QS)}
    if x < 0.72:
        return {"k": "goap", "t": o.randrange(0, tmax + 2)}
    if x < 0.76:
        return {"k": "bad", "what": o.choice(("add_neg_start", "add_neg_end", "get_point_neg", "goap_neg", "add_both_neg")), "o": o.randrange(npool), "t": o.randrange(0, tmax + 1)}
    if x < 0.80:
        return {"k": "q_point", "t": o.randrange(0, tmax + 3)}
    if x < 0.83:
        return {"k": "q_ends"}
    if x < 0.87:
        return {"k": "q_qd", "s": o.choice((None, o.randrange(0, tmax + 1))), "e": o.choice((None, o.randrange(0, tmax + 3)))}
    if x < 0.90:
        return {"k": "views"}
    return _gen_query(o, tmax)


# ----------------------------------------------------------------------------
# reference model


class RefTimeline(object):
    def __init__(self, q0, pool):
        self.pool = pool
        self.starts = {}  # t -> [obj idx]
        self.ends = {}
        self.obj = {i: [None, None] for i in range(len(pool))}
        self.explicit = set()  # points created by get_or_add_point, never populated
        self.qcands = [{0: q0}]  # candidate quarter-duration tables (see ASSUMPTIONS)
        self.version = 0

    # --- points
    def point_times(self):
        ts = set(t for t, l in self.starts.items() if l) | set(t for t, l in self.ends.items() if l) | self.explicit
        return sorted(ts)

    def populated(self, t):
        return bool(self.starts.get(t)) or bool(self.ends.get(t))

    # --- quarter durations
    @staticmethod
    def qd_of(table, t):
        best = None
        for k in table:
            if k <= t and (best is None or k > best):
                best = k
        if best is None:
            best = min(table)
        return table[best]

    @staticmethod
    def fn_of(table, upto):
        return tuple(RefTimeline.qd_of(table, t) for t in range(0, upto + 1))

    def setq_successors(self, t, q):
        out = []
        for tab in self.qcands:
            a = dict(tab)
            a[t] = q
            b = {}
            prev = None
            for k in sorted(a):
                if prev is None or a[k] != prev:
                    b[k] = a[k]
                prev = a[k]
            # c: a redundant *new* value is not recorded, other entries persist
            c = dict(a)
            ks = sorted(c)
            pos = ks.index(t)
            if pos > 0 and c[ks[pos - 1]] == q:
                del c[t]
            for x in (a, b, c):
                if x not in out:
                    out.append(x)
        return out

    def state_key(self, upto):
        return (
            tuple(sorted((t, tuple(l)) for t, l in self.starts.items() if l)),
            tuple(sorted((t, tuple(l)) for t, l in self.ends.items() if l)),
            tuple(sorted(self.explicit)),
            tuple(sorted(set(self.fn_of(c, upto) for c in self.qcands))),
        )

    # --- class matching
    def matches(self, i, clsname, sub):
        import partitura.score as S

        if clsname is None:
            return True
        c = getattr(S, clsname)
        oc = getattr(S, base_name(self.pool[i]))
        if self.pool[i].startswith("User:"):
            # an object of a caller-defined subclass: found through its bases, never by an exact-class query for a base
            return issubclass(oc, c) if sub else False
        return issubclass(oc, c) if sub else oc is c


# ----------------------------------------------------------------------------
# execution


class World(object):
    def __init__(self, case, res):
        import partitura.score as S

        self.S = S
        self.case = case
        self.res = res
        self.part = S.Part("P0", quarter_duration=case["q0"])
        self.user_classes = {}
        self.objs = [None if c.startswith("User:") else _mk(c, i) for i, c in enumerate(case["pool"])]
        self.idx = {id(o): i for i, o in enumerate(self.objs) if o is not None}
        self.m = RefTimeline(case["q0"], case["pool"])
        self.upto = TMAX + 6
        self.removed = False
        self.overwrote = False
        self.reader_overlap = False

    # ---- helpers
    def obj(self, i):
        if self.objs[i] is None:
            # the caller defines his class now
            self.res.probe("caller_defined_subclass")
            self.objs[i] = _mk(self.case["pool"][i], i, self.user_classes)
            self.idx[id(self.objs[i])] = i
        return self.objs[i]

    def oi(self, o):
        return self.idx.get(id(o), -1)

    def grouped(self, objs, side):
        """list of objects -> [(t, sorted idx list)] in the order returned;
        returns None if an object has no point on that side"""
        out = []
        for o in objs:
            tp = o.start if side == "starting" else o.end
            if tp is None:
                return None
            t = tp.t
            if out and out[-1][0] == t:
                out[-1][1].append(self.oi(o))
            else:
                out.append([t, [self.oi(o)]])
        return [(t, sorted(l)) for t, l in out]

    def expected_iter_all(self, q):
        m = self.m
        src = m.starts if q["mode"] == "starting" else m.ends
        lo = q["s"] if q["s"] is not None else -1
        hi = q["e"] if q["e"] is not None else 10**9
        out = []
        for t in sorted(src):
            if t < lo or t >= hi:
                continue
            l = sorted(i for i in src[t] if m.matches(i, q["cls"], q["sub"] or q["cls"] is None))
            if l:
                out.append((t, l))
        return out

    def expected_nb(self, q, t0):
        m = self.m
        ts = sorted(m.starts)
        if q["dir"] == "prev":
            sel = [t for t in reversed(ts) if (t <= t0 if q["eq"] else t < t0)]
        else:
            sel = [t for t in ts if (t >= t0 if q["eq"] else t > t0)]
        out = []
        for t in sel:
            l = sorted(i for i in m.starts[t] if m.matches(i, q["cls"], q["sub"]))
            if l:
                out.append((t, l))
        return out

    def make_query(self, q):
        """returns (generator, expected, side) or None if not applicable now"""
        S = self.S
        if q["k"] == "q_iter_all":
            cls = getattr(S, q["cls"]) if q["cls"] else None
            s, e = q["s"], q["e"]
            if q.get("tp"):
                self.res.probe("query_with_timepoint_bounds")
                s = S.TimePoint(s) if s is not None else None
                e = S.TimePoint(e) if e is not None else None
            g = self.part.iter_all(cls, start=s, end=e, include_subclasses=q["sub"], mode=q["mode"])
            return g, self.expected_iter_all(q), q["mode"]
        pts = self.part._points
        if len(pts) == 0:
            return None
        tp = pts[q["i"] % len(pts)]
        cls = getattr(S, q["cls"])
        f = tp.iter_prev if q["dir"] == "prev" else tp.iter_next
        return f(cls, eq=q["eq"], include_subclasses=q["sub"]), self.expected_nb(q, tp.t), "starting"

    # ---- invariants after every event
    def invariants(self, op):
        res, part, m = self.res, self.part, self.m
        pts = list(part._points)
        times = [p.t for p in pts]
        # I1
        for t in times:
            if not isinstance(t, (int,)) and not hasattr(t, "__index__"):
                res.violation("I1-times", op, "time point with non-integer time %r" % (t,))
                return
        if any(t < 0 for t in times) or any(b <= a for a, b in zip(times, times[1:])):
            res.violation("I1-times", op, "time points not non-negative strictly increasing: %s" % times)
            return
        # I3
        want = m.point_times()
        if [int(t) for t in times] != want:
            extra = sorted(set(times) - set(want))
            missing = sorted(set(want) - set(times))
            if extra and not missing:
                res.violation("I3-empty-point", op, "empty time point(s) left on the timeline at %s (points %s, expected %s)" % (extra, times, want))
            else:
                res.violation("I3-points", op, "points %s but registered objects imply %s" % (times, want))
            return
        # I2
        for k, p in enumerate(pts):
            wp = pts[k - 1] if k > 0 else None
            wn = pts[k + 1] if k + 1 < len(pts) else None
            if p.prev is not wp:
                res.violation("I2-links", op, "point t=%s has prev=%s, expected %s" % (p.t, getattr(p.prev, "t", None), getattr(wp, "t", None)), site="prev")
                return
            if p.next is not wn:
                res.violation("I2-links", op, "point t=%s has next=%s, expected %s" % (p.t, getattr(p.next, "t", None), getattr(wn, "t", None)), site="next")
                return
        # I4
        listed_s, listed_e = {}, {}
        for p in pts:
            for side, reg, acc in (("start", p.starting_objects, listed_s), ("end", p.ending_objects, listed_e)):
                got = []
                for cls, oo in reg.items():
                    for o in oo:
                        i = self.oi(o)
                        if type(o) is not cls:
                            res.violation("I4-registry", op, "object o%d of %s filed under %s" % (i, type(o).__name__, cls.__name__))
                            return
                        if i in acc:
                            res.violation("I4-registry", op, "object o%d listed twice as %s (t=%s and t=%s)" % (i, side, acc[i].t, p.t))
                            return
                        acc[i] = p
                        got.append(i)
                exp = (m.starts if side == "start" else m.ends).get(p.t, [])
                if sorted(got) != sorted(exp):
                    res.violation("I4-registry", op, "point t=%s lists %s objects %s, model %s" % (p.t, side, sorted(got), sorted(exp)))
                    return
        for i, o in enumerate(self.objs):
            if o is None:
                continue
            ms, me = m.obj[i]
            for side, tp, mt, acc in (("start", o.start, ms, listed_s), ("end", o.end, me, listed_e)):
                if mt is None:
                    if tp is not None:
                        res.violation("I4-backref", op, "o%d.%s is t=%s but object is not registered on that side" % (i, side, tp.t))
                        return
                else:
                    if tp is None or tp is not acc.get(i):
                        res.violation("I4-backref", op, "o%d.%s is %s, not the very point (t=%s) that lists it" % (i, side, None if tp is None else "t=%s" % tp.t, mt))
                        return
        # I5
        try:
            qmap = part.quarter_duration_map
            obs = tuple(int(qmap(t)) for t in range(0, self.upto + 1))
        except Exception as e:
            res.violation("I7-raised", op, "quarter_duration_map raised %s: %s" % (type(e).__name__, e))
            return
        keep = [c for c in m.qcands if m.fn_of(c, self.upto) == obs]
        if not keep and getattr(m, "q_overflow", False):
            # the candidate set was cut earlier in this run: the right table may have been among the dropped ones
            res.count("qcands_overflow_unjudged")
            m.qcands = [dict((t, obs[t]) for t in range(0, self.upto + 1) if t == 0 or obs[t] != obs[t - 1])]
            return
        if not keep:
            res.violation(
                "I5-quarter-function",
                op,
                "quarter duration in force at t=0..%d is %s; reference candidates %s" % (self.upto, list(obs), [list(m.fn_of(c, self.upto)) for c in m.qcands][:4]),
            )
            return
        if len(keep) > 512:
            m.q_overflow = True
            keep = keep[:512]
        m.qcands = keep
        for p in pts:
            if p.quarter != obs[p.t]:
                res.violation("I5-point-quarter", op, "point t=%s carries quarter=%s, in force is %s" % (p.t, p.quarter, obs[p.t]))
                return
        try:
            tab = part.quarter_durations()
            tabf = tuple(int(self._step(tab, t)) for t in range(0, self.upto + 1))
        except Exception as e:
            res.violation("I7-raised", op, "quarter_durations raised %s: %s" % (type(e).__name__, e))
            return
        if tabf != obs:
            res.violation("I5-quarter-table", op, "quarter_durations() as a step function %s != quarter_duration_map %s" % (list(tabf), list(obs)))

    @staticmethod
    def _step(tab, t):
        v = tab[0][1]
        for row in tab:
            if row[0] <= t:
                v = row[1]
        return v

    # ---- mutator ops
    def do_op(self, op):
        res, part, m, S = self.res, self.part, self.m, self.S
        k = op["k"]
        name = k
        outcome = None
        try:
            if k == "add":
                i = op["o"] % len(self.objs)
                s, e = op.get("s"), op.get("e")
                ms, me = m.obj[i]
                if s is not None and ms is not None:
                    s = None
                if e is not None and me is not None:
                    e = None
                # keep end >= start
                eff_s = s if s is not None else ms
                if e is not None and eff_s is not None and e < eff_s:
                    e = None
                eff_e = e if e is not None else me
                if s is not None and eff_e is not None and s > eff_e:
                    s = None
                if s is None and e is None:
                    res.log.add("mutator", "skip", ["add", i])
                    return "skip"
                if s is not None and s == e:
                    res.probe("add_equal_start_end")
                part.add(self.obj(i), s, e)
                if s is not None:
                    m.starts.setdefault(s, []).append(i)
                    m.obj[i][0] = s
                    m.explicit.discard(s)
                if e is not None:
                    m.ends.setdefault(e, []).append(i)
                    m.obj[i][1] = e
                    m.explicit.discard(e)
                m.version += 1
                outcome = [i, s, e]
                name = "add:" + ("both" if s is not None and e is not None else "start" if s is not None else "end")
            elif k == "rm":
                i = op["o"] % len(self.objs)
                w = op["w"]
                ms, me = m.obj[i]
                pts = m.point_times()
                hit = []
                if w in ("start", "both") and ms is not None:
                    hit.append(("s", ms))
                if w in ("end", "both") and me is not None:
                    hit.append(("e", me))
                # model update first (pure), then the real call
                tags = set()
                for side, t in hit:
                    (m.starts if side == "s" else m.ends)[t].remove(i)
                    m.obj[i][0 if side == "s" else 1] = None
                    if not m.populated(t) and t not in m.explicit:
                        res.probe("remove_emptied_point")
                        tags.add("interior")
                        if pts and t == pts[0]:
                            res.probe("remove_hit_first_point")
                            tags.add("first")
                        if pts and t == pts[-1]:
                            res.probe("remove_hit_last_point")
                            tags.add("last")
                        pts = m.point_times()
                if hit:
                    self.removed = True
                    m.version += 1
                name = "rm:" + ("noop" if not hit else "+".join(sorted(tags - ({"interior"} if len(tags) > 1 else set()))) or "kept-point")
                part.remove(self.obj(i), w)
                outcome = [i, w, hit]
            elif k == "setq":
                t, q = op["t"], op["q"]
                existing = any(t in c and t != 0 for c in m.qcands)
                if existing:
                    res.probe("setq_at_existing_change")
                    self.overwrote = True
                    name = "setq:existing"
                    if any(m.qd_of(c, t - 1) == q and c.get(t) != q for c in m.qcands if t in c and t > 0):
                        res.probe("setq_equal_to_previous_at_existing_change")
                        name = "setq:existing-eqprev"
                m.qcands = m.setq_successors(t, q)
                m.version += 1
                part.set_quarter_duration(t, q)
                outcome = [t, q]
            elif k == "goap":
                t = op["t"]
                if t not in m.point_times():
                    m.explicit.add(t)
                    res.probe("explicit_empty_point")
                    m.version += 1
                tp = part.get_or_add_point(t)
                if tp is None or tp.t != t:
                    res.violation("I6-query", "goap", "get_or_add_point(%d) returned %s" % (t, tp))
                outcome = [t]
            elif k == "bad":
                res.probe("bad_argument_op")
                i = op["o"] % len(self.objs)
                what = op["what"]
                ms, me = m.obj[i]
                name = "bad:" + what
                try:
                    if what == "add_neg_start":
                        if ms is not None:
                            return "skip"
                        part.add(self.obj(i), -1 - op["t"] % 3, None)
                    elif what == "add_neg_end":
                        if ms is not None or me is not None:
                            return "skip"
                        part.add(self.obj(i), op["t"], -1)
                    elif what == "add_both_neg":
                        if ms is not None or me is not None:
                            return "skip"
                        part.add(self.obj(i), -2, -1)
                    elif what == "get_point_neg":
                        part.get_point(-1)
                    else:
                        part.get_or_add_point(-1 - op["t"] % 2)
                except S.InvalidTimePointException:
                    outcome = "raised"
                else:
                    res.violation("I7-bad-arg-accepted", name, "negative time accepted without InvalidTimePointException")
                    outcome = "accepted"
            elif k == "q_point":
                t = op["t"]
                tp = part.get_point(t)
                exp = t in m.point_times()
                if (tp is not None) != exp or (tp is not None and tp.t != t):
                    res.violation("I6-query", "get_point", "get_point(%d) -> %s, expected %s" % (t, None if tp is None else tp.t, t if exp else None))
                outcome = [t, tp is not None]
            elif k == "q_ends":
                pts = m.point_times()
                fp, lp = part.first_point, part.last_point
                got = (None if fp is None else fp.t, None if lp is None else lp.t)
                exp = (pts[0], pts[-1]) if pts else (None, None)
                if got != exp:
                    res.violation("I6-query", "first/last_point", "first/last point %s, expected %s" % (got, exp))
                outcome = list(got)
            elif k == "q_qd":
                s, e = op["s"], op["e"]
                full = [tuple(int(x) for x in r) for r in part.quarter_durations()]
                sub = [tuple(int(x) for x in r) for r in part.quarter_durations(s, e)]
                exp = [r for r in full if (s is None or r[0] >= s) and (e is None or r[0] < e)]
                if sub != exp:
                    res.violation("I6-query", "quarter_durations", "quarter_durations(%s,%s) -> %s, rows of the full table in range are %s" % (s, e, sub, exp))
                outcome = sub
            elif k in ("q_iter_all", "q_nb"):
                r = self.make_query(op)
                if r is None:
                    return "skip"
                g, exp, side = r
                got = self.grouped(list(g), side)
                name = k + (":" + op["mode"] if k == "q_iter_all" else ":" + op["dir"])
                if got != exp:
                    res.violation("I6-query", name.split(":")[0], "query %s returned %s, model %s" % (op, got, exp), site=("subclasses" if op.get("sub") else "exact"))
                outcome = got
            elif k == "views":
                res.probe("views_crosscheck")
                outcome = self.views()
        except Exception as e:
            if isinstance(e, (KeyboardInterrupt, SystemExit)):
                raise
            import traceback

            tb = traceback.extract_tb(e.__traceback__)
            where = [f for f in tb if "/partitura/" in f.filename]
            site = where[-1].name if where else "harness"
            if not where:
                raise
            res.violation("I7-raised", name.split(":")[0], "valid operation %s raised %s: %s (in %s)" % (op, type(e).__name__, e, site), site=site)
            outcome = "raised:" + type(e).__name__
        res.log.add("mutator", name, outcome)
        res.sigadd(0, name)
        return name

    # ---- history independence of derived views (DESIGN 3.1.5)
    def views(self):
        """number_of_staves must equal what the currently registered objects
        imply, whatever was queried or edited before."""
        part, m, S = self.part, self.m, self.S
        if not m.point_times():
            return None
        exp = 1
        for i, (ms, me) in m.obj.items():
            if ms is None:
                continue
            o = self.obj(i)
            if isinstance(o, (S.GenericNote, S.Clef, S.Direction, S.Words)) and getattr(o, "staff", None):
                exp = max(exp, o.staff)
        got = part.number_of_staves
        if got != exp:
            self.res.violation("V1-stale-view", "number_of_staves", "number_of_staves=%s but registered objects imply %s (answer depends on call history)" % (got, exp))
        # the time and signature maps must be those of a part that holds the same objects and has no history:
        # rebuild one from the model in canonical order and compare the maps as functions
        import numpy as np

        fresh = S.Part("P0", quarter_duration=self.case["q0"])
        for t, q in part.quarter_durations():
            fresh.set_quarter_duration(int(t), int(q))
        same_start = {}
        for i in sorted(m.obj):
            ms, me = m.obj[i]
            if ms is None and me is None:
                continue
            fresh.add(_mk(self.case["pool"][i], i, self.user_classes), ms, me)
            if ms is not None:
                same_start.setdefault((self.case["pool"][i], ms), []).append(i)
        for t in sorted(m.explicit):
            fresh.get_or_add_point(t)  # explicitly created (still empty) points are part of the state
        if fresh.quarter_durations().tolist() != part.quarter_durations().tolist():
            # set_quarter_duration may drop an entry that repeats the preceding value, so the table (part of the
            # state: it bounds the domain of the maps) cannot always be rebuilt through the public API
            self.res.count("views_maps_skipped:table_not_rebuildable")
            return got
        ambiguous = set(c for (c, t), l in same_start.items() if len(l) > 1)
        pts = m.point_times()
        ts = np.arange(pts[0], pts[-1] + 1)
        diffs = []
        for name, classes in (("quarter_map", ("Measure", "TimeSignature")), ("beat_map", ("Measure", "TimeSignature")), ("time_signature_map", ("TimeSignature",)), ("key_signature_map", ("KeySignature",)), ("measure_map", ("Measure", "TimeSignature")), ("quarter_duration_map", ())):
            if ambiguous & set(classes):
                continue  # 'latest' legitimately depends on insertion order
            out = []
            for p in (part, fresh):
                try:
                    out.append(np.nan_to_num(np.asarray(getattr(p, name)(ts), dtype=float), nan=-987654.25).round(9).tolist())
                except Exception as e:
                    out.append("raised:" + type(e).__name__)
            if out[0] != out[1]:
                diffs.append(name)
        if diffs:
            self.res.violation("V1-stale-view", diffs[0], "%s of the part differs from the same map of a freshly built part with the same objects (the answer depends on the call history)" % ", ".join(diffs), site="maps")
        return [got, exp, diffs]


def execute(case, keep_log=False):
    res = Result(keep_log)
    w = World(case, res)
    res.log.add("world", "init", {"q0": case["q0"], "pool": case["pool"], "readers": len(case["readers"])})

    def mutator():
        for op in case["ops"]:
            name = w.do_op(op)
            w.invariants(name if isinstance(name, str) else op["k"])
            res.state(w.m.state_key(w.upto))
            if res.violations:
                return
            yield

    def reader(k, spec):
        if res.violations:
            return
        made = w.make_query(spec["q"])
        if made is None:
            res.log.add("reader%d" % k, "no-points", None)
            return
        g, exp, side = made
        v0 = w.m.version
        res.log.add("reader%d" % k, "open", spec["q"])
        got = []
        yield
        for _ in range(spec["max"]):
            if res.violations:
                return
            try:
                o = next(g)
            except StopIteration:
                if w.m.version == v0:
                    res.probe("reader_finished_unperturbed")
                    gg = w.grouped(got, side)
                    if gg != exp:
                        res.violation("I6-query", "reader", "suspended reader %s (no edit in between) returned %s, model %s" % (spec["q"], gg, exp))
                res.log.add("reader%d" % k, "exhausted", len(got))
                return
            except RuntimeError as e:
                if res.violations:
                    return
                # e.g. dict changed size during iteration after a concurrent edit: the
                # property says nothing about what a suspended reader sees
                res.log.add("reader%d" % k, "reader-error", type(e).__name__)
                return
            got.append(o)
            if w.m.version != v0:
                res.probe("reader_step_after_mutation")
                w.reader_overlap = True
            res.log.add("reader%d" % k, "item", w.oi(o))
            res.sigadd(k + 1, "item", w.m.version != v0)
            w.invariants("reader-step")
            if res.violations:
                return
            yield

    tasks = [("mutator", mutator())] + [("reader%d" % k, reader(k, r)) for k, r in enumerate(case["readers"])]
    sc = sched.Scheduler(tasks, case["schedule"], res.log, max_steps=600)
    try:
        sc.run()
    except sched.StepBudgetExceeded as e:
        res.violation("harness-step-cap", "scheduler", str(e))
    for tid, e in sorted(sc.errors.items()):
        if tid == 0:
            raise e
    res.count("context_switches", sc.switches)
    res.nontrivial = bool(w.removed or w.overwrote or w.reader_overlap)
    res.log.add("world", "end", {"points": w.m.point_times()})
    return res


# ----------------------------------------------------------------------------
# shrinking


def shrink_spec(case):
    paths = [("readers",), ("ops",), ("schedule",)]

    def simplify(c):
        # smaller pool indices / times / q values
        for k, op in enumerate(c["ops"]):
            for key in ("s", "e", "t"):
                v = op.get(key)
                if isinstance(v, int) and v > 0:
                    for nv in (0, v // 2, v - 1):
                        if nv != v:
                            d = copy.deepcopy(c)
                            d["ops"][k][key] = nv
                            yield d
            if op.get("q", 1) not in (1, 2):
                d = copy.deepcopy(c)
                d["ops"][k]["q"] = 2
                yield d
        if c["q0"] != 1:
            d = copy.deepcopy(c)
            d["q0"] = 1
            yield d

    return paths, [simplify]


def case_size(case):
    return {"ops": len(case["ops"]), "readers": len(case["readers"]), "schedule": len(case["schedule"])}
