"""C14 - the pedal machine (DESIGN 3.4).

One PerformedPart reached by one of three routes (constructor from dicts,
from_note_array, load_performance_midi of a file written by the independent SMF
writer onto SimFS), then a history of operations on it: threshold assignments,
note edits (legal and illegal = bad-argument faults), control edits, note_array,
rebuild from its own note array, wrapping in a Performance.  The simulator owns
the operation history and the route; the oracle is the exact reference pedal
model below, evaluated after every assignment on the *current* notes/controls."""
import copy

from model import fingerprint as FP, ref_smf
from sim import glob as G
from sim import rng as R
from sim.result import Result
from sim.simfs import SimFS

ID = "C14"
CONFIGS = ("constructor", "from_note_array", "midi")
TIERS = {
    "quick": {"runs": 6000, "wall": 150, "gate": 32, "run_timeout": 60},
    "thorough": {"runs": 600000, "wall": 1200, "gate": 128, "run_timeout": 60},
}
SHRINK_BUDGET = 400
RULE = (
    "each run = one generated note list (<=14 notes, pitches from a small set so that equal pitches repeat and overlap across channels, "
    "zero-length notes, unsorted) and control stream (pedal values 0..127 before/inside/after the notes, other controllers interleaved) "
    "built over one of three routes, followed by <=15 operations (threshold assignment, legal/illegal note edits, control insert/remove, "
    "note_array, rebuild, Performance wrap); non-trivial = at least one note was extended by the pedal or clipped by a re-strike, or an "
    "illegal edit was rejected; distinct = distinct (route, op kind, effect) sequences"
)
ASSUMPTIONS = [
    "a pedal event exactly at a note's release time may or may not count as 'at that moment': both readings are accepted",
    "if the pedal is down at the release and never comes up later, any sounding end >= the release is accepted",
    "for notes of one pitch with identical onsets the re-strike rule is ambiguous: clipping to the release is accepted",
    "pedal events have distinct times (the library sorts them with an unstable sort)",
    "float32 storage of the note array is the precision of the rebuild comparison",
]
COMPONENTS = {"real": ["partitura.performance (PerformedPart, PerformedNote, adjust_offsets_w_sustain, Performance)", "partitura.io.importmidi.load_performance_midi", "utils.music.seconds_to_midi_ticks", "mido"], "stub": ["SimFS", "independent SMF writer (model/ref_smf.py)"]}
PROBES = ("meta_only_track", "two_pedal_events_at_one_time", "part_without_notes", "reclocked", "pedal_extended_note", "restrike_clipped", "illegal_edit_rejected", "threshold_127", "no_pedal_events", "pedal_event_at_release", "overlapping_equal_pitch", "threshold_raised", "performance_wrap", "rebuild")


# ----------------------------------------------------------------------------
# generation


def generate(seed, tier, cfg):
    st = R.Streams(seed)
    w, o, k = st.workload, st.ops, st.knobs
    nn = k.choice((1, 2, 4, 8, 14))
    pitches = k.choice(([60], [60, 62], [60, 61, 62, 64, 67]))
    notes = []
    for i in range(nn):
        on = w.choice((w.randrange(0, 24) / 4.0, round(w.uniform(0, 6), 3)))
        dur = w.choice((0.0, 0.25, 0.5, 1.0, 2.0, round(w.uniform(0.01, 3), 3)))
        notes.append({"id": "n%d" % i, "midi_pitch": w.choice(pitches), "note_on": on, "note_off": on + dur, "velocity": w.randrange(1, 128), "track": w.choice((0, 0, 1)), "channel": w.choice((0, 0, 1, 2))})
    if k.random() < 0.15:
        # note times given as whole seconds in Python ints (a hand-written list); pedal events stay fractional
        for n in notes:
            n["note_on"] = int(n["note_on"])
            n["note_off"] = max(n["note_on"], int(round(n["note_off"])))
    late = k.choice((0, 0, 0, 0, 0, 600, 1800, 3599))
    if w.random() < 0.5:
        notes.sort(key=lambda n: n["note_on"])
    nc = k.choice((0, 0, 1, 2, 4, 8))
    controls = []
    used = set()
    for i in range(nc):
        t = w.choice((w.randrange(0, 56) / 8.0, w.randrange(0, 24) / 4.0, round(w.uniform(-0.5, 9), 3)))
        t = max(0.0, t)
        num = w.choice((64, 64, 64, 67, 1))
        if num == 64:
            if t in used:
                continue
            used.add(t)
        controls.append({"type": {64: "sustain_pedal", 67: "soft_pedal", 1: "modulation"}[num], "number": num, "time": t, "value": w.choice((0, 127, 64, 63, 65, 20, 100, w.randrange(0, 128))), "track": 0, "channel": 0})
    if notes and k.random() < 0.2:
        # the pedal goes down at the very moment a key comes up (it was up until then) and is lifted later
        n = w.choice(notes)
        if n["note_off"] not in used:
            used.add(n["note_off"])
            controls.append({"type": "sustain_pedal", "number": 64, "time": n["note_off"], "value": 127, "track": 0, "channel": 0})
            controls.append({"type": "sustain_pedal", "number": 64, "time": n["note_off"] + w.choice((0.5, 1.5, 3.0)), "value": 0, "track": 0, "channel": 0})
    if not late and k.random() < 0.1:
        # a long take: some of the events happen a thousand seconds (about seventeen minutes) after the others
        for n in notes:
            if w.random() < 0.5:
                n["note_on"] += 1000.0
                n["note_off"] += 1000.0
        for c in controls:
            if w.random() < 0.5:
                c["time"] += 1000.0
    if late:
        # a passage late in a long recording: the same events ten minutes to an hour in, with the pedal lifted a few
        # milliseconds after a release (absolute times are large, the differences that matter stay small)
        for n in notes:
            n["note_on"] += late
            n["note_off"] += late
        for c in controls:
            c["time"] += late
        if notes:
            n = w.choice(notes)
            controls.append({"type": "sustain_pedal", "number": 64, "time": n["note_on"], "value": 127, "track": 0, "channel": 0})
            controls.append({"type": "sustain_pedal", "number": 64, "time": n["note_off"] + w.choice((0.003, 0.004, 0.0015)), "value": 0, "track": 0, "channel": 0})
    if w.random() < 0.5:
        controls.sort(key=lambda c: c["time"])
    ops = []
    for _ in range(k.choice((1, 3, 6, 10, 15))):
        x = o.random()
        if x < 0.35:
            ops.append({"k": "thr", "v": o.choice((0, 1, 20, 63, 64, 65, 100, 126, 127, 128, o.randrange(0, 128)))})
        elif x < 0.5:
            key = o.choice(("note_off", "velocity", "pitch", "note_on", "track", "channel"))
            ops.append({"k": "edit", "i": o.randrange(0, 20), "key": key, "delta": o.choice((0.25, 0.5, 1.0, 1, 2, 5))})
        elif x < 0.62:
            ops.append({"k": "bad_edit", "i": o.randrange(0, 20), "what": o.choice(("velocity_200", "velocity_neg", "pitch_128", "pitch_neg", "note_off_before_on", "sound_off_before_off", "note_on_neg", "unknown_key", "delete"))})
        elif x < 0.72:
            sus = [c["time"] for c in controls if c["number"] == 64]
            if sus and o.random() < 0.35:
                # a second pedal event at the moment of an existing one (two events of one MIDI tick)
                ops.append({"k": "add_control", "time": o.choice(sus), "value": o.choice((0, 127, 64, 65, 90, 30)), "number": 64})
            else:
                ops.append({"k": "add_control", "time": o.randrange(0, 64) / 8.0 + 0.0625, "value": o.choice((0, 127, 64, 90, 30)), "number": o.choice((64, 64, 67))})
        elif x < 0.78:
            ops.append({"k": "rm_control", "i": o.randrange(0, 10)})
        elif x < 0.82:
            ops.append({"k": "reclock", "ppq": o.choice((480, 960, 96, 1000, 9600, 15360)), "mpq": o.choice((500000, 600000, 250000, 454545)), "np": o.choice((None, None, "int32", "int64"))})
        elif x < 0.90:
            ops.append({"k": "note_array"})
        elif x < 0.95:
            ops.append({"k": "rebuild"})
        else:
            ops.append({"k": "wrap", "extra_tracks": o.choice(((0,), (0, 1), (1, 3), (16, 17), (17, 1, 33))), "meta_track": o.choice((None, None, 5, 2)), "pedal_only": o.choice((0, 0, 1, 2, 3))})
    return {"notes": notes, "controls": controls, "ops": ops, "route": cfg, "knobs": {"ppq": k.choice((480, 960, 96, 1)), "mpq": k.choice((500000, 600000, 250000)), "thr0": k.choice((64, 64, 0, 127, 100)), "late": late}}


# ----------------------------------------------------------------------------
# reference pedal model (exact; two readings at exact ties)


def ref_sound_offs(notes, controls, thr):
    """-> list of sets of accepted sounding ends (or ('ge', x) for 'anything >= x')."""
    ped = sorted(((c["time"], c["value"]) for c in controls if c.get("number") == 64), key=lambda x: x[0])
    out = []
    for n in notes:
        rel = n["note_off"]
        acc = set()
        open_ended = False
        for incl in (False, True):  # does an event exactly at the release count as 'at that moment'?
            val = None
            for t, v in ped:
                if t < rel or (incl and t == rel):
                    val = v
            down = val is not None and val > thr
            if not down or thr >= 127 or not ped:
                r = rel
            else:
                later = [t for t, v in ped if (t > rel or (not incl and t == rel)) and v <= thr]
                if later:
                    r = later[0]
                else:
                    r = None
                    open_ended = True
            if r is not None:
                acc.add(r)
        # re-strike of the same pitch
        same = sorted(m["note_on"] for m in notes if m is not n and m["midi_pitch"] == n["midi_pitch"])
        nxt = [x for x in same if x > n["note_on"]]
        dup = any(x == n["note_on"] for x in same)
        res = set()
        for r in acc:
            if nxt:
                res.add(max(rel, min(r, nxt[0])))
            else:
                res.add(r)
        if open_ended:
            if nxt:
                res.add(max(rel, nxt[0]))
            else:
                res.add(("ge", rel))
        if dup:
            res.add(rel)
        out.append(res)
    return out


def accepted(value, accset, tol=1e-9):
    for a in accset:
        if isinstance(a, tuple):
            if value >= a[1] - tol:
                return True
        elif abs(value - a) <= tol:
            return True
    return False


# ----------------------------------------------------------------------------
# execution


def plain_notes(pp):
    return [dict(n.pnote_dict) for n in pp.notes]


def build_ppart(case, res, fs):
    import numpy as np
    import partitura.performance as P

    kn = case["knobs"]
    notes = copy.deepcopy(case["notes"])
    controls = copy.deepcopy(case["controls"])
    route = case["route"]
    if route == "constructor":
        return P.PerformedPart(notes, id="PP", controls=controls, ppq=kn["ppq"], mpq=kn["mpq"], sustain_pedal_threshold=kn["thr0"])
    if route == "from_note_array":
        fields = [("onset_sec", "f8"), ("duration_sec", "f8"), ("pitch", "i4"), ("velocity", "i4"), ("track", "i4"), ("channel", "i4"), ("id", "U256")]
        na = np.array([(n["note_on"], n["note_off"] - n["note_on"], n["midi_pitch"], n["velocity"], n["track"], n["channel"], n["id"]) for n in notes], dtype=fields)
        pp = P.PerformedPart.from_note_array(na, id="PP")
        pp.controls = controls
        pp.ppq, pp.mpq = kn["ppq"], kn["mpq"]
        pp.sustain_pedal_threshold = kn["thr0"]
        return pp
    # midi route: the peer writes a file, load_performance_midi reads it
    import partitura as pt

    ppq, mpq = max(kn["ppq"], 96), kn["mpq"]
    tr = [{"tick": 0, "type": "set_tempo", "tempo": mpq}]

    def tick(sec):
        return int(round(1e6 * ppq * sec / mpq))

    # the file can only hold what MIDI can: equal-pitch notes of one channel must not overlap
    keep = []
    for n in sorted(notes, key=lambda n: n["note_on"]):
        if any(m["midi_pitch"] == n["midi_pitch"] and m["channel"] == n["channel"] and tick(m["note_on"]) <= tick(n["note_off"]) and tick(n["note_on"]) <= tick(m["note_off"]) for m in keep):
            continue
        if tick(n["note_off"]) == tick(n["note_on"]):
            continue
        keep.append(n)
    for n in keep:
        tr.append({"tick": tick(n["note_on"]), "type": "note_on", "channel": n["channel"], "note": n["midi_pitch"], "velocity": n["velocity"]})
        tr.append({"tick": tick(n["note_off"]), "type": "note_off", "channel": n["channel"], "note": n["midi_pitch"], "velocity": 0})
    for c in controls:
        tr.append({"tick": tick(c["time"]), "type": "control_change", "channel": 0, "control": c["number"], "value": c["value"]})
    if not keep:
        return None
    fs.put("/simfs/perf.mid", ref_smf.encode(ppq, [tr]))
    perf = pt.load_performance("/simfs/perf.mid", pedal_threshold=kn["thr0"])
    return perf.performedparts[0]


def check_all(res, pp, thr, opname):
    """after an assignment: every sound_off equals the reference on the current notes and controls"""
    notes = plain_notes(pp)
    controls = [dict(c) for c in pp.controls]
    refs = ref_sound_offs(notes, controls, thr)
    ext = clip = False
    for n, acc in zip(notes, refs):
        so = n["sound_off"]
        if so < n["note_off"] - 1e-12:
            res.violation("P1-before-release", opname, "note %s (pitch %s, %s..%s) has sounding end %s before its release (threshold %s)" % (n["id"], n["midi_pitch"], n["note_on"], n["note_off"], so, thr), site="sound_off<note_off")
            return
        if not accepted(float(so), acc):
            res.violation("P2-pedal-rule", opname, "note %s (pitch %s, %s..%s) sounds until %s, the pedal rule gives %s (threshold %s, pedal %s)" % (n["id"], n["midi_pitch"], n["note_on"], n["note_off"], so, sorted(map(str, acc)), thr, [(c["time"], c["value"]) for c in controls if c.get("number") == 64]), site="value")
            return
        if so > n["note_off"]:
            ext = True
            if any(m is not n and m["midi_pitch"] == n["midi_pitch"] and m["note_on"] == so for m in notes):
                res.probe("restrike_clipped")
        if any(c.get("number") == 64 and c["time"] == n["note_off"] for c in controls):
            res.probe("pedal_event_at_release")
    if ext:
        res.probe("pedal_extended_note")
    return ext


def execute(case, keep_log=False):
    import numpy as np
    import partitura.performance as P

    res = Result(keep_log)
    kn = case["knobs"]
    fs = SimFS()
    res.log.add("world", "init", {"route": case["route"], "notes": len(case["notes"]), "controls": len(case["controls"]), "knobs": kn})
    nontrivial = False
    with fs:
        g0 = G.fingerprint()
        try:
            pp = build_ppart(case, res, fs)
        except Exception as e:
            import traceback

            tb = traceback.extract_tb(e.__traceback__)
            site = [f for f in tb if "/partitura/" in f.filename]
            if not site:
                raise
            res.violation("P0-construction-failed", "build:" + case["route"], "building a performed part from valid notes (0 <= onset <= release) raised %s: %s (in %s)" % (type(e).__name__, e, site[-1].name), site=site[-1].name)
            return res
        if pp is None:
            res.log.add("world", "skip", "nothing expressible in a MIDI file")
            return res
        pitches = [n["midi_pitch"] for n in plain_notes(pp)]
        if len(set(pitches)) < len(pitches):
            res.probe("overlapping_equal_pitch")
        thr = kn["thr0"]
        if not any(c.get("number") == 64 for c in pp.controls):
            res.probe("no_pedal_events")
        if check_all(res, pp, thr, "build:" + case["route"]):
            nontrivial = True
        prev = (thr, [n["sound_off"] for n in plain_notes(pp)])
        edited_since = False
        # notes built from seconds carry no tick fields: their ticks always follow from seconds, ppq and mpq
        had_ticks = any("note_on_tick" in n for n in plain_notes(pp))
        for op in case["ops"]:
            if res.violations:
                break
            k = op["k"]
            outcome = None
            try:
                if k == "thr":
                    v = op["v"]
                    if v == 127:
                        res.probe("threshold_127")
                    pp.sustain_pedal_threshold = v
                    thr = v
                    if check_all(res, pp, thr, "thr"):
                        nontrivial = True
                    now = [n["sound_off"] for n in plain_notes(pp)]
                    if not edited_since and len(now) == len(prev[1]) and v > prev[0]:
                        res.probe("threshold_raised")
                        for a, b, n in zip(prev[1], now, plain_notes(pp)):
                            if b > a + 1e-12:
                                res.violation("P3-monotone", "thr", "raising the threshold %s -> %s lengthened note %s: %s -> %s" % (prev[0], v, n["id"], a, b), site="raise")
                                break
                    prev = (v, now)
                    edited_since = False
                    outcome = v
                elif k == "edit":
                    if not pp.notes:
                        continue
                    n = pp.notes[op["i"] % len(pp.notes)]
                    key = op["key"]
                    if key == "note_off":
                        n["note_off"] = n["note_off"] + float(op["delta"])
                    elif key == "note_on":
                        n["note_on"] = max(0.0, n["note_on"] - float(op["delta"]))
                    elif key == "velocity":
                        n["velocity"] = int(min(127, max(0, n["velocity"] + op["delta"])))
                    elif key == "pitch":
                        n["pitch"] = int(min(127, max(0, n["pitch"] + 1)))
                    else:
                        n[key] = int(op["delta"])
                    edited_since = True
                    outcome = key
                elif k == "bad_edit":
                    if not pp.notes:
                        continue
                    n = pp.notes[op["i"] % len(pp.notes)]
                    before = dict(n.pnote_dict)
                    what = op["what"]
                    raised = None
                    try:
                        if what == "velocity_200":
                            n["velocity"] = 200
                        elif what == "velocity_neg":
                            n["velocity"] = -1
                        elif what == "pitch_128":
                            n["pitch"] = 128
                        elif what == "pitch_neg":
                            n["pitch"] = -1
                        elif what == "note_off_before_on":
                            if n["note_on"] <= 0:
                                continue
                            n["note_off"] = n["note_on"] / 2.0
                        elif what == "sound_off_before_off":
                            if n["note_off"] <= 0:
                                continue
                            n["sound_off"] = n["note_off"] / 2.0
                        elif what == "note_on_neg":
                            n["note_on"] = -1.0
                        elif what == "unknown_key":
                            n["colour"] = 3
                        else:
                            del n["velocity"]
                    except (ValueError, KeyError) as e:
                        raised = type(e).__name__
                    if raised is None:
                        res.violation("P4-bad-edit-accepted", "bad_edit", "illegal edit %s was accepted: %s -> %s" % (what, before, dict(n.pnote_dict)), site=what)
                    else:
                        res.probe("illegal_edit_rejected")
                        nontrivial = True
                        if dict(n.pnote_dict) != before:
                            res.violation("P4-bad-edit-mutated", "bad_edit", "rejected edit %s still changed the note: %s -> %s" % (what, before, dict(n.pnote_dict)), site=what)
                    outcome = [what, raised]
                elif k == "add_control":
                    if op["number"] == 64 and any(c.get("number") == 64 and c["time"] == op["time"] for c in pp.controls):
                        # two pedal events at one moment: the later one in the stream is in force afterwards
                        res.probe("two_pedal_events_at_one_time")
                    pp.controls.append({"type": "sustain_pedal" if op["number"] == 64 else "soft_pedal", "number": op["number"], "time": op["time"], "value": op["value"], "track": 0, "channel": 0})
                    edited_since = True
                    outcome = [op["time"], op["value"]]
                elif k == "rm_control":
                    if pp.controls:
                        del pp.controls[op["i"] % len(pp.controls)]
                        edited_since = True
                elif k == "note_array":
                    na = pp.note_array()
                    notes = plain_notes(pp)
                    if len(na) != len(notes):
                        res.violation("P5-note-array", "note_array", "note array has %d rows for %d notes" % (len(na), len(notes)), site="rows")
                    if not had_ticks and any("note_on_tick" in n or "note_off_tick" in n for n in notes):
                        res.violation("P5-note-array", "note_array", "taking the note array stored tick fields in the notes of a part that was built from seconds", site="mutated-notes")
                    for row, n in zip(na, notes):
                        want_tick = n.get("note_on_tick") if had_ticks else None
                        if want_tick is None:
                            want_tick = int(round(1e6 * pp.ppq * n["note_on"] / pp.mpq))
                        if int(row["onset_tick"]) != int(want_tick) and abs(1e6 * pp.ppq * n["note_on"] / pp.mpq % 1 - 0.5) > 1e-6:
                            res.violation("P5-note-array", "note_array", "note %s onset %ss is tick %s under ppq=%s mpq=%s, array says %s" % (n["id"], n["note_on"], want_tick, pp.ppq, pp.mpq, row["onset_tick"]), site="onset_tick")
                            break
                        if abs(float(row["onset_sec"]) - n["note_on"]) > 1e-5 * max(1.0, abs(n["note_on"])):
                            res.violation("P5-note-array", "note_array", "note %s onset_sec %s != %s" % (n["id"], row["onset_sec"], n["note_on"]), site="onset_sec")
                            break
                        if abs(float(row["duration_sec"]) - (n["sound_off"] - n["note_on"])) > 1e-5 * max(1.0, abs(n["sound_off"])):
                            res.violation("P5-note-array", "note_array", "note %s duration_sec %s, sounding end - onset = %s" % (n["id"], row["duration_sec"], n["sound_off"] - n["note_on"]), site="duration_sec")
                            break
                        if int(row["pitch"]) != n["midi_pitch"] or int(row["velocity"]) != n["velocity"]:
                            res.violation("P5-note-array", "note_array", "note %s pitch/velocity (%s,%s) != (%s,%s)" % (n["id"], row["pitch"], row["velocity"], n["midi_pitch"], n["velocity"]), site="pitch/velocity")
                            break
                        if n["sound_off"] == n["note_off"] and "note_on_tick" not in n:
                            dt = int(round(1e6 * pp.ppq * n["note_off"] / pp.mpq)) - int(want_tick)
                            if abs(int(row["duration_tick"]) - dt) > 1:
                                res.violation("P5-note-array", "note_array", "note %s duration_tick %s, expected %s" % (n["id"], row["duration_tick"], dt), site="duration_tick")
                                break
                    outcome = len(na)
                elif k == "reclock":
                    if not had_ticks:
                        # the resolution may come out of an integer array field (numpy's 32 or 64 bit integers)
                        pp.ppq, pp.mpq = (getattr(np, op["np"])(op["ppq"]) if op.get("np") else op["ppq"]), op["mpq"]
                        res.probe("reclocked")
                        if op.get("np"):
                            res.probe("reclocked_numpy_int")
                    outcome = [int(pp.ppq), int(pp.mpq)]
                elif k == "rebuild":
                    res.probe("rebuild")
                    na = pp.note_array()
                    pp2 = P.PerformedPart.from_note_array(na)
                    a, b = plain_notes(pp), plain_notes(pp2)
                    if len(a) != len(b):
                        res.violation("P6-rebuild", "rebuild", "rebuilt part has %d notes, original %d" % (len(b), len(a)), site="rows")
                    for x, y in zip(a, b):
                        tol = 1e-5 * max(1.0, abs(x["sound_off"]))
                        if int(y["midi_pitch"]) != x["midi_pitch"] or int(y["velocity"]) != x["velocity"] or abs(float(y["note_on"]) - x["note_on"]) > tol or abs(float(y["sound_off"]) - x["sound_off"]) > 2 * tol:
                            res.violation("P6-rebuild", "rebuild", "note %s rebuilt as pitch %s vel %s %s..%s, original pitch %s vel %s %s..%s" % (x["id"], y["midi_pitch"], y["velocity"], y["note_on"], y["sound_off"], x["midi_pitch"], x["velocity"], x["note_on"], x["sound_off"]), site="values")
                            break
                    outcome = len(b)
                elif k == "wrap":
                    res.probe("performance_wrap")
                    other = P.PerformedPart([{"id": "x%d" % i, "midi_pitch": 40 + i, "note_on": 0.1 * i, "note_off": 0.1 * i + 0.05, "velocity": 50, "track": t, "channel": 0} for i, t in enumerate(op["extra_tracks"])], id="Q", controls=[{"type": "sustain_pedal", "number": 64, "time": 0.0, "value": 0, "track": op["extra_tracks"][0]}])
                    if op.get("meta_track") is not None:
                        # a conductor-style track: signatures on a track of their own that carries no note or control;
                        # the part that has it comes first in the performance
                        other.time_signatures = [{"time": 0.0, "beats": 3, "beat_type": 4, "track": op["meta_track"]}]
                        other.key_signatures = [{"time": 0.0, "fifths": 2, "mode": "major", "track": op["meta_track"]}]
                        res.probe("meta_only_track")
                    groups_before = [_track_partition(pp), _track_partition(other)]
                    plist = [other, pp] if op.get("meta_track") is not None else [pp, other]
                    pedal_only = None
                    if op.get("pedal_only"):
                        # a pedal recorded on a track of its own, kept as a part without notes
                        pedal_only = P.PerformedPart([], id="E", controls=[{"type": "sustain_pedal", "number": 64, "time": 0.5, "value": 100, "track": 0}, {"type": "sustain_pedal", "number": 64, "time": 1.5, "value": 0, "track": 0}])
                        plist.insert(op["pedal_only"] - 1, pedal_only)
                        res.probe("part_without_notes")
                    perf = P.Performance(plist)
                    tr = [_tracks(x) for x in (pp, other)]
                    if pedal_only is not None:
                        t3 = _tracks(pedal_only)
                        if t3 & (tr[0] | tr[1]):
                            res.violation("P7-tracks", "wrap", "the tracks of a part without notes %s collide with those of the other parts %s after Performance()" % (sorted(t3), sorted(tr[0] | tr[1])), site="overlap-empty-part")
                    if tr[0] & tr[1]:
                        res.violation("P7-tracks", "wrap", "track numbers of two parts overlap after Performance(): %s and %s" % (sorted(tr[0]), sorted(tr[1])), site="overlap")
                    groups_after = [_track_partition(pp), _track_partition(other)]
                    if groups_after != groups_before:
                        res.violation("P7-tracks", "wrap", "renumbering tracks changed which notes/controls share a track: %s -> %s" % (groups_before, groups_after), site="partition")
                    # (num_tracks counts the tracks that carry notes, controls or programs)
                    sounding = sum(len(set(n.get("track", -1) for n in x.notes) | set(c.get("track", -1) for c in x.controls) | set(p.get("track", -1) for p in x.programs)) for x in plist)
                    if perf.num_tracks != sounding:
                        res.violation("P7-tracks", "wrap", "num_tracks %s but parts use %s distinct tracks for notes, controls and programs" % (perf.num_tracks, sounding), site="num_tracks")
                    outcome = [sorted(tr[0]), sorted(tr[1])]
            except Exception as e:
                import traceback

                tb = traceback.extract_tb(e.__traceback__)
                site = [f for f in tb if "/partitura/" in f.filename]
                if not site:
                    raise
                res.violation("P0-raised", k, "operation %s raised %s: %s (in %s)" % (op, type(e).__name__, e, site[-1].name), site=site[-1].name)
                outcome = "raised"
            res.log.add("client", k, {"op": op, "outcome": outcome})
            res.sigadd(k, str(outcome)[:24])
            res.state(k, thr, tuple(round(float(n["sound_off"]), 6) for n in plain_notes(pp)))
            g1 = G.fingerprint()
            if g1 != g0:
                d = [kk for kk in g0 if g0[kk] != g1.get(kk)]
                res.violation("O5-globals", k, "process-global state changed: %s" % d, site=",".join(d))
                G.restore(g0)
    res.sigadd(case["route"])
    res.nontrivial = nontrivial
    res.log.add("world", "end", None)
    return res


def _tracks(pp):
    return (
        set(n.get("track", -1) for n in pp.notes)
        | set(c.get("track", -1) for c in pp.controls)
        | set(p.get("track", -1) for p in pp.programs)
        | set(m.get("track", -1) for m in (pp.time_signatures or []) + (pp.key_signatures or []) + (pp.meta_other or []))
    )


def _track_partition(pp):
    g = {}
    for i, n in enumerate(pp.notes):
        g.setdefault(n.get("track", -1), []).append("n%d" % i)
    for i, c in enumerate(pp.controls):
        g.setdefault(c.get("track", -1), []).append("c%d" % i)
    return sorted(sorted(v) for v in g.values())


def shrink_spec(case):
    paths = [("ops",), ("controls",), ("notes",)]

    def simp(c):
        for i, n in enumerate(c["notes"]):
            for key, val in (("track", 0), ("channel", 0), ("velocity", 64)):
                if n[key] != val:
                    d = copy.deepcopy(c)
                    d["notes"][i][key] = val
                    yield d
        if c["route"] != "constructor":
            d = copy.deepcopy(c)
            d["route"] = "constructor"
            yield d

    return paths, [simp]


def case_size(case):
    return {"notes": len(case["notes"]), "controls": len(case["controls"]), "ops": len(case["ops"])}
