"""C20 - the shared-object world (DESIGN 3.2).

One Score (+ optionally one Performance and an alignment) shared by 2-4
cooperative clients.  The simulator owns the client interleaving (recorded
schedule, yields around every iter()/next() on a container or library
generator), the order of operations, I/O faults on export targets and the hash
seed.  Oracles: O1 iteration history, O2 bounded liveness of loops, O3
non-mutation (identity snapshot of the whole world before/after every
read-only operation), O4 repeatability (same op -> same result digest, also
against a freshly built world), O5 process globals, O6 retry after a failed
export."""
import copy
import io
import sys

from model import build, fingerprint as FP, gen
from sim import glob as G
from sim import rng as R
from sim import sched
from sim.result import Result
from sim.simfs import Fault, SimFS
from sim.simfs import SimCrash as FsCrash

ID = "C20"
CONFIGS = ("nofault", "fault")
TIERS = {
    "quick": {"runs": 1600, "wall": 200, "gate": 16, "run_timeout": 120},
    "thorough": {"runs": 120000, "wall": 1500, "gate": 64, "run_timeout": 120},
}
SHRINK_BUDGET = 250
RULE = (
    "each run = one generated score (1-3 parts, repeats/ties/slurs/grace notes; optionally a performance and alignment) shared "
    "by 2-4 clients whose programs (<=8 read-only entry points each, incl. full/partial/nested loops over the container and "
    "lazily consumed library generators) are interleaved by a recorded schedule; non-trivial = at least two clients were "
    "mid-iteration on the same container at the same time, or an operation was repeated after a different one, or an I/O fault "
    "fired inside an export; distinct = distinct sequences of (client, op kind, fault kind) per run"
)
ASSUMPTIONS = [
    "private caches (_quarter_map, _number_of_staves) and the container cursor attribute are not part of 'the argument'",
    "order of objects inside one time-point bucket is not compared",
    "a read-only operation that raises is an outcome: it must raise the same way every time and leave the argument alone",
    "no pre-emption inside a library call (no property promises thread safety)",
]
COMPONENTS = {
    "real": ["partitura.score (Score, Part, unfold*, iter_all)", "partitura.performance", "exportmusicxml", "exportmidi", "exportmatch", "utils.music (note arrays, pianoroll, transpose)", "musicanalysis estimators", "mido", "lxml"],
    "stub": ["export targets: in-memory file-like objects with injected write/close errors and SimFS paths"],
}
PROBES = ("beat_setting_changed_between_views", "result_container_checked", "two_clients_mid_iteration", "nested_loop", "partial_loop", "loop_body_calls_entry_point", "repeat_after_other_op", "export_fault_fired", "lazy_generator_interleaved", "op_raised_consistently")

SEGMENT_SHAPE = "TimePoint.ending_objects[Segment]|TimePoint.starting_objects[Segment]"
INTERVALS = [(2, "M"), (3, "m"), (5, "P"), (4, "A"), (1, "P")]


# ----------------------------------------------------------------------------
# generation

ATOMIC = [
    ("save_xml", 6),
    ("save_midi", 5),
    ("note_array", 6),
    ("rest_array", 2),
    ("pianoroll", 2),
    ("maps", 4),
    ("pretty", 2),
    ("unfold_max", 4),
    ("unfold_min", 3),
    ("get_paths", 2),
    ("segments", 2),
    ("estimate", 2),
    ("transpose", 3),
    ("len_getitem", 2),
    ("group_views", 2),
    ("perf_midi", 3),
    ("perf_array", 2),
    ("num_tracks", 2),
    ("save_match", 2),
    ("save_match_file", 5),
    ("na_slice", 3),
    ("na_pianoroll", 2),
    ("na_estimate", 2),
    ("na_to_score", 1),
    ("set_beats", 2),
]
# documented in-place settings of what a beat is (not read-only: they stand between two looks at the same part)
MBEATS_A = {"6/8": 3, "9/8": 1, "12/8": 2, "4/4": 2, "3/4": 1, "2/2": 1, "5/8": 1, "7/8": 1, "3/8": 3, "2/4": 1, "5/4": 1, "6/4": 3, "3/2": 1}
MBEATS_B = {"6/8": 1, "9/8": 3, "12/8": 4, "4/4": 4, "3/4": 3, "2/2": 2, "5/8": 5, "7/8": 7, "3/8": 1, "2/4": 2, "5/4": 5, "6/4": 2, "3/2": 3}


def apply_beats(part, variant, m=0):
    import partitura.score as S

    try:
        if variant in (4, 5):
            # a time signature is added at (removed from) the start of a measure, where notes and the barline already
            # stand: a documented in-place edit that creates or removes no time point
            ms_ = sorted(part.iter_all(S.Measure), key=lambda x: x.start.t)
            if not ms_:
                return "no-measure"
            t_ = ms_[m % len(ms_)].start.t
            if variant == 4:
                part.add(S.TimeSignature(5, 8), t_)
            else:
                here = list(part.iter_all(S.TimeSignature, start=t_, end=t_ + 1))
                if not here:
                    return "none-there"
                part.remove(here[-1])
            return "ok"
        if variant == 0:
            part.use_notated_beat()
        elif variant == 1:
            part.use_musical_beat()
        elif variant == 2:
            part.use_musical_beat(dict(MBEATS_A))
        else:
            part.set_musical_beat_per_ts(dict(MBEATS_B))
        return "ok"
    except Exception as e:
        return "raised:" + type(e).__name__
ITER = [("loop", 5), ("partial", 3), ("nested", 4), ("loop_call", 4), ("iter_unfolded", 2), ("perf_loop", 3)]


def _gen_atomic(o, nparts, has_perf, cfg):
    kinds = [(k, w) for k, w in ATOMIC if has_perf or k not in ("perf_midi", "perf_array", "num_tracks", "save_match", "save_match_file")]
    k = R.pick_weighted(o, kinds)
    op = {"k": k}
    tgt = o.choice(["score"] + ["part%d" % i for i in range(nparts)])
    if k in ("save_xml", "save_midi") and o.random() < 0.2:
        # the exporters also take the list of top-level parts and part groups itself
        tgt = "structure"
    if k == "save_xml":
        op.update(target=tgt, route=o.choice(("str", "filelike", "path")))
    elif k == "save_midi":
        op.update(target=tgt, mode=o.randrange(0, 6), anacrusis=o.choice(("shift", "pad_bar", "time_sig_change")), route=o.choice(("filelike", "path")))
    elif k in ("note_array", "rest_array"):
        op.update(target=tgt, flags=o.randrange(0, 64))
    elif k == "pianoroll":
        op.update(target="part%d" % o.randrange(nparts), onset_only=o.random() < 0.3)
    elif k in ("maps", "pretty", "segments", "get_paths"):
        op.update(target="part%d" % o.randrange(nparts))
        if k == "get_paths":
            op.update(flags=o.choice(((False, False, True), (False, True, True), (True, False, True), (False, True, False))))
    elif k in ("unfold_max", "unfold_min"):
        op.update(target=tgt, update_ids=o.random() < 0.5, ignore_leaps=o.random() < 0.7)
    elif k == "estimate":
        op.update(target="part%d" % o.randrange(nparts), what=o.choice(("spelling", "voices", "key")))
    elif k == "set_beats":
        op.update(target="part%d" % o.randrange(nparts), variant=o.randrange(6), m=o.randrange(0, 6))
    elif k == "transpose":
        op.update(target=tgt, interval=o.randrange(len(INTERVALS)))
    elif k == "len_getitem":
        op.update(target="perf" if has_perf and o.random() < 0.4 else "score", slices=o.choice((None, None, [0, 1], [1, None], [None, None])))
    elif k == "perf_midi":
        op.update(target=o.choice(("perf", "ppart", "pplist")), route=o.choice(("filelike", "path")))
    elif k == "perf_array":
        op.update(target=o.choice(("perf", "ppart")))
    elif k in ("na_slice", "na_pianoroll", "na_estimate", "na_to_score"):
        op.update(arr=o.randrange(nparts))
        if k == "na_slice":
            op.update(a=o.choice((0, 0, 1, 2)), b=o.choice((1, 2, 3, 5, 100)), clip=o.random() < 0.8, which=o.choice(("last_onset", "span", "fixed")))
        if k == "na_estimate":
            op.update(what=o.choice(("spelling", "voices", "key")))
    if k == "save_match_file":
        op.update(route="path")
    if k in ("save_match", "save_match_file"):
        # default of the public API: the exporter unfolds the part itself to match the alignment
        op.update(auto_unfold=o.random() < 0.4, target="part0")
        if k == "save_match_file":
            # the score may be given as a Part, as the Score that holds it, or as a list of parts (the first is used)
            op.update(score_form=o.choice(("part", "part", "score", "list")))
    if cfg == "fault" and k in ("save_xml", "save_midi", "perf_midi", "save_match_file") and op.get("route") != "str" and o.random() < 0.6:
        op["fault"] = {"kind": o.choice(("write_error", "write_error", "close_error", "crash") + (("open_error",) if op.get("route") == "path" else ())), "at": o.choice((0, 1, 2, 3, 5, 8, 20)), "errno": o.choice((28, 5))}
    return op


def generate(seed, tier, cfg):
    st = R.Streams(seed)
    k = st.knobs
    profile = k.choice(("full", "unfold", "full", "plain"))
    asc = gen.gen_score(st.workload, profile=profile, size=gen.pick_size(tier, st.knobs))
    nparts = len(asc["parts"])
    has_perf = k.random() < 0.5
    nclients = k.choice((2, 2, 3, 4))
    o = st.ops
    programs = []
    for c in range(nclients):
        prog = []
        for _ in range(k.choice((2, 3, 5, 8))):
            if o.random() < 0.4:
                kind = R.pick_weighted(o, [(x, w) for x, w in ITER if has_perf or x != "perf_loop"])
                op = {"k": kind}
                if kind == "partial":
                    op["brk"] = o.randrange(0, 3)
                if kind == "loop_call":
                    op["body"] = _gen_atomic(o, nparts, has_perf, "nofault")
                    if o.random() < 0.5:
                        op["body"] = {"k": "save_xml", "target": "score", "route": "str"}
                if kind == "iter_unfolded":
                    op.update(target="part%d" % o.randrange(nparts), take=o.choice((1, 2, 99)))
                prog.append(op)
            else:
                prog.append(_gen_atomic(o, nparts, has_perf, cfg))
        programs.append(prog)
    # some notes carry no explicit symbolic duration (it is then estimated on every read)
    if k.random() < 0.4:
        for p in asc["parts"]:
            for n in p["notes"]:
                if n.get("g") is None and st.workload.random() < 0.3:
                    n["sym"] = None
    # a part in a mode the key-name table does not know (legal in MusicXML): calls that need the key name fail on it,
    # every time and without consequences for later calls on other objects
    modal = k.randrange(nparts) if nparts >= 2 and k.random() < 0.12 else None
    if modal is not None:
        other = "part%d" % ((modal + 1) % nparts)
        programs[0][:0] = [{"k": "pretty", "target": other}, {"k": "pretty", "target": "part%d" % modal}, {"k": "pretty", "target": other}]
    long_movement = False
    if k.random() < 0.008:
        # a long movement (about a thousand time points): the calls that copy their argument before they change the copy
        # reach their limits here - whatever they do then, they do it to the copy
        from checks.c03 import tiny_long_slur

        asc = tiny_long_slur(k, nm=60, slurs=False)
        nparts = 1
        has_perf = False
        programs = [[{"k": "transpose", "target": "score", "interval": 2}, {"k": "note_array", "target": "part0", "flags": 1}, {"k": "transpose", "target": "part0", "interval": 1}], [{"k": "unfold_max", "target": "score", "update_ids": True, "ignore_leaps": True}]]
        nclients = 2
        long_movement = True
    long_second = has_perf and k.random() < 0.05
    if long_second:
        programs[0][:0] = [{"k": "perf_array", "target": "perf"}, {"k": "perf_array", "target": "ppart"}, {"k": "perf_array", "target": "perf"}]
    nsteps = sum(len(p) for p in programs) * 6 + 20
    policy = k.choice(("uniform", "bursty", "uniform", "rr"))
    return {
        "workload": asc,
        "perf_seed": st.workload.randrange(1 << 30) if has_perf else None,
        "programs": programs,
        "schedule": sched.gen_schedule(st.schedule, nclients, nsteps, policy),
        "knobs": {"policy": policy, "reclimit": k.choice((1000, 1500, 3000)), "profile": profile, "chunk": k.choice((0, 0, 7, 16, 512)), "musical_beat": [i for i in range(nparts) if k.random() < 0.5], "high_staff_words": [i for i in range(nparts) if k.random() < 0.25], "unnumbered_groups": k.random() < 0.4, "custom_mbeats": k.random() < 0.5, "unnumbered_measures": [i for i in range(nparts) if k.random() < 0.25], "empty_part_id": k.choice((None, None, None, 0, 1)), "hyphen_ids": k.random() < 0.3, "orphan_children": k.random() < 0.3, "modal_part": modal, "long_second": long_second, "late_structure": long_movement},
    }


# ----------------------------------------------------------------------------
# world


class FaultyOut(io.RawIOBase):
    """Caller-supplied file-like export target with injected faults (a seam
    the exporters already have: out=<file-like>)."""

    def __init__(self, fault, res):
        super().__init__()
        self.data = bytearray()
        self.fault = fault
        self.nwrites = 0
        self.res = res
        self.fired = False

    def writable(self):
        return True

    def write(self, b):
        f = self.fault
        if f and f["kind"] in ("write_error", "crash") and self.nwrites >= f["at"]:
            self.fired = True
            self.res.fault(f["kind"])
            if f["kind"] == "crash":
                raise SimCrash("crash at write %d" % self.nwrites)
            raise OSError(f["errno"], "injected write error")
        self.nwrites += 1
        self.data.extend(bytes(b))
        return len(b)

    def close(self):
        f = self.fault
        if f and f["kind"] == "close_error" and not self.fired:
            self.fired = True
            self.res.fault("close_error")
            super().close()
            raise OSError(f["errno"], "injected error at close")
        super().close()


class SimCrash(BaseException):
    pass


def make_perf(asc, seed, long_second=False):
    """A deterministic performance + alignment for part 0 of the score."""
    import random

    import partitura.performance as P

    rng = random.Random(seed)
    ap = asc["parts"][0]
    notes = []
    align = []
    t = 0.5
    k = 0
    for q, d, mp, nid in sorted(gen.sounding_notes(ap), key=lambda x: (x[0], x[2])):
        on = 0.5 + float(q) * 0.5 + rng.uniform(-0.02, 0.02)
        off = on + max(0.05, float(d) * 0.45)
        if rng.random() < 0.1:
            align.append({"label": "deletion", "score_id": nid})
            continue
        if any(n["midi_pitch"] == mp and n["note_on"] < off + 0.05 and on - 0.05 < n["note_off"] for n in notes):
            align.append({"label": "deletion", "score_id": nid})
            continue
        pid = "p%d" % k
        k += 1
        notes.append({"id": pid, "midi_pitch": mp, "note_on": max(0.0, on), "note_off": max(0.01, off), "velocity": rng.randrange(20, 110), "track": 0, "channel": rng.choice((0, 0, 1))})
        align.append({"label": "match", "score_id": nid, "performance_id": pid})
        if rng.random() < 0.08 and mp + 2 <= 108:
            # an ornament note played on top of the score note (its alignment entry names the score note as well)
            pid2 = "p%d" % k
            k += 1
            notes.append({"id": pid2, "midi_pitch": mp + 2, "note_on": max(0.0, on) + 0.01, "note_off": max(0.0, on) + 0.04, "velocity": 40, "track": 0, "channel": 0})
            align.append({"label": "ornament", "score_id": nid, "performance_id": pid2, "type": rng.choice(("trill", "mordent", "generic_ornament"))})
    if rng.random() < 0.5 or not notes:
        notes.append({"id": "p%d" % k, "midi_pitch": 60, "note_on": 0.1, "note_off": 0.3, "velocity": 64, "track": 0, "channel": 0})
        align.append({"label": "insertion", "performance_id": "p%d" % k})
    controls = []
    for i in range(rng.choice((0, 2, 4))):
        controls.append({"type": "sustain_pedal", "number": 64, "time": 0.2 + i * 0.7, "value": rng.choice((0, 127, 40, 90)), "track": 0, "channel": 0})
    pp = P.PerformedPart(notes, id="PP0", part_name="perf", controls=controls, ppq=rng.choice((480, 960, 96)), mpq=rng.choice((500000, 600000)))
    parts = [pp]
    if rng.random() < 0.5 or long_second:
        n2 = [{"id": "q0", "midi_pitch": 48, "note_on": 0.2, "note_off": 0.9, "velocity": 50, "track": 0, "channel": 0}, {"id": "q1", "midi_pitch": 52, "note_on": 1.0, "note_off": 1.5, "velocity": 70, "track": 1, "channel": 0}]
        if long_second:
            # a long second recording (more than a thousand notes)
            n2 += [{"id": "q%d" % (i + 2), "midi_pitch": 30 + i % 60, "note_on": 2.0 + 0.1 * i, "note_off": 2.08 + 0.1 * i, "velocity": 40 + i % 50, "track": 1, "channel": 0} for i in range(1200)]
        parts.append(P.PerformedPart(n2, id="PP1", part_name="second"))
    perf = P.Performance(parts, id="perf")
    return perf, align


def make_free_parts(seed):
    """performed parts that are NOT wrapped in a Performance: two recordings, both on track 0 (nothing has made their
    track numbers unique), as a caller would pass them in a list"""
    import random

    import partitura.performance as P

    rng = random.Random(seed ^ 0x5A5A)
    out = []
    for k in range(2):
        notes = [{"id": "f%dn%d" % (k, i), "midi_pitch": 40 + 12 * k + i, "note_on": 0.25 * i + 0.1 * k, "note_off": 0.25 * i + 0.2 + 0.1 * k, "velocity": rng.randrange(30, 100), "track": 0, "channel": k} for i in range(3)]
        controls = [{"type": "sustain_pedal", "number": 64, "time": 0.3, "value": 100, "track": 0, "channel": k}] if rng.random() < 0.5 else []
        out.append(P.PerformedPart(notes, id="F%d" % k, controls=controls))
    return out


def _container_consistent(res, r, k):
    """a Score returned by the library is a container like any other: len, indexing and iteration agree"""
    import partitura.score as S

    if not isinstance(r, S.Score):
        return
    by_index = [r[i] for i in range(len(r))]
    by_iter = list(r)
    if len(by_index) != len(by_iter) or any(a is not b for a, b in zip(by_index, by_iter)) or any(a is not b for a, b in zip(by_index, r.parts)):
        res.violation("O4-container", k, "the Score returned by %s is not a consistent container: iteration gives %s, indexing gives %s" % (k, [getattr(p, "id", None) for p in by_iter], [getattr(p, "id", None) for p in by_index]), site="result")
    if res is not None:
        res.probe("result_container_checked")


def hyphenate_ids(asc):
    """note ids that contain a hyphen (but not '-1'): 'p1n3' -> 'p1-n3' (ids are the caller's; exporters must cope)"""
    import copy as _copy

    asc = _copy.deepcopy(asc)

    def f(i):
        return i.replace("n", "-n", 1) if isinstance(i, str) else i

    for p in asc["parts"]:
        for n in p["notes"]:
            n["id"] = f(n["id"])
            for key in ("tie_next", "tie_prev", "grace_next", "grace_prev"):
                if n.get(key):
                    n[key] = f(n[key])
        for coll in ("slurs", "tuplets"):
            for x in p.get(coll, []):
                x["start"], x["end"] = f(x["start"]), f(x["end"])
    return asc


class World(object):
    def __init__(self, case, res=None, simfs=None):
        import partitura.score as S

        self.S = S
        self.case = case
        self.asc = case["workload"]
        if case.get("knobs", {}).get("hyphen_ids"):
            self.asc = hyphenate_ids(self.asc)
        kn = case.get("knobs", {})
        # (late_structure: the notes are added first, measures and signatures afterwards - as the MIDI importer and a
        # caller using add_measures do)
        self.score = build.build_score(self.asc, with_pages=not kn.get("late_structure"), late_structure=bool(kn.get("late_structure")))
        # documented in-place settings applied before the object is shared
        for i, p in enumerate(self.score.parts):
            if i in kn.get("musical_beat", ()):
                try:
                    if kn.get("custom_mbeats"):
                        # a caller's own number of musical beats per signature (documented optional argument)
                        p.use_musical_beat({"6/8": 3, "9/8": 1, "12/8": 2, "4/4": 2, "3/4": 1, "2/2": 1, "5/8": 1, "7/8": 1, "3/8": 3, "2/4": 1, "5/4": 1, "6/4": 3, "3/2": 1})
                    else:
                        p.use_musical_beat()
                except Exception:
                    pass
        if kn.get("unnumbered_groups"):
            # part groups built through the API (or by the MEI importer) carry no number
            for p in self.score.parts:
                g = p.parent
                while g is not None:
                    g.number = None
                    g = g.parent
        if kn.get("orphan_children"):
            # part groups filled with children.append(...) alone, as the MIDI and MEI importers do: the children carry no
            # link back to their group
            groups = []
            for p in self.score.parts:
                g = p.parent
                while g is not None:
                    if not any(g is x for x in groups):
                        groups.append(g)
                    g = g.parent
            for g in groups:
                for ch in g.children:
                    ch.parent = None
        if kn.get("modal_part") is not None and len(self.score.parts) > kn["modal_part"]:
            for ks in self.score.parts[kn["modal_part"]].iter_all(S.KeySignature):
                ks.mode = "dorian"
        if kn.get("empty_part_id") is not None and self.score.parts:
            # a part without an id (hand-built parts often have none)
            self.score.parts[kn["empty_part_id"] % len(self.score.parts)].id = ""
        for i, p in enumerate(self.score.parts):
            if i in kn.get("unnumbered_measures", ()):
                # measures without a number (the constructor default; e.g. the second half of a measure split by a repeat)
                for j, m in enumerate(sorted(p.iter_all(S.Measure), key=lambda m: m.start.t)):
                    if j % 2 == 1:
                        m.number = None
        for i, p in enumerate(self.score.parts):
            if i in kn.get("high_staff_words", ()):
                # an unusual but legal part: the highest staff number is only referenced by a text direction
                top = max([getattr(o, "staff", None) or 1 for o in p.iter_all(S.GenericNote, include_subclasses=True)] + [1])
                p.add(S.Words("ped. simile", staff=top + 1), p.first_point.t if p.first_point else 0)
        self.perf = None
        self.align = None
        self.free_parts = None
        if case.get("perf_seed") is not None:
            self.perf, self.align = make_perf(self.asc, case["perf_seed"], bool(kn.get("long_second")))
            self.free_parts = make_free_parts(case["perf_seed"])
        self.res = res
        self.fs = simfs if simfs is not None else SimFS(chunk=case["knobs"].get("chunk", 0))
        self.path_counter = 0
        self.snapper = FP.Snapshotter()
        # note arrays "taken earlier" and passed to array-level entry points; part of the world snapshot
        # (taken from an equal score built for the purpose: the shared score itself has not been looked at by anybody when
        # the first client arrives)
        self.arrays = [p.note_array(include_pitch_spelling=True, include_staff=True) for p in build.build_score(self.asc, with_pages=True).parts]

    def roots(self):
        r = [self.score, self.arrays]
        if self.perf is not None:
            r += [self.perf, self.align, self.free_parts]
        return r

    def snap(self):
        return self.snapper.snapshot(*self.roots())

    def target(self, name):
        if name == "score":
            return self.score
        if name == "structure":
            return list(self.score.part_structure)
        if name == "perf":
            return self.perf
        if name == "ppart":
            return self.perf.performedparts[0]
        if name == "pplist":
            return self.free_parts
        return self.score.parts[int(name[4:]) % len(self.score.parts)]


def _na_flags(flags, is_score):
    names = ["include_pitch_spelling", "include_key_signature", "include_time_signature", "include_grace_notes", "include_staff", "include_divs_per_quarter"]
    return {n: bool(flags >> i & 1) for i, n in enumerate(names)}


def run_atomic(w, op, res, sink=None):
    """Execute one read-only entry point; returns an address-free result value.
    Exceptions from the library are outcomes (returned as ('raised', type))."""
    import numpy as np
    import partitura
    import partitura.score as S
    from partitura.utils import music as M

    k = op["k"]
    tgt = w.target(op["target"]) if "target" in op else None
    fired0 = dict(w.fs.fired)

    class PathOut(object):
        """export target given as a path on the simulated file system; the library opens, writes and
        closes it itself, under the fault of this operation (F1 open, F2 write, F3 close, F4 crash)"""

        def __init__(self):
            w.path_counter += 1
            self.path = "/simfs/c20-%d.out" % w.path_counter
            f = op.get("fault")
            kinds = {"write_error": "F2", "close_error": "F3", "crash": "F4", "open_error": "F1"}
            w.fs.faults = [Fault(kinds[f["kind"]], self.path, f["at"], f["errno"])] if f else []
            self.before = dict(w.fs.fired)

        @property
        def data(self):
            return w.fs.get(self.path) or b""

    def out_for(route):
        if route == "filelike":
            return FaultyOut(op.get("fault"), res)
        if route == "path":
            return PathOut()
        return None

    try:
        if k == "save_xml":
            o = out_for(op["route"])
            r = partitura.save_musicxml(tgt, o.path if isinstance(o, PathOut) else o)
            return bytes(o.data) if o is not None else r
        if k == "save_midi":
            o = out_for(op["route"])
            from partitura.io.exportmidi import save_score_midi

            if isinstance(o, PathOut):
                save_score_midi(tgt, o.path, part_voice_assign_mode=op["mode"], anacrusis_behavior=op["anacrusis"])
                return bytes(o.data)
            buf = io.BufferedWriter(o, buffer_size=64)
            save_score_midi(tgt, buf, part_voice_assign_mode=op["mode"], anacrusis_behavior=op["anacrusis"])
            return _finish(buf, o)
        if k == "note_array":
            fl = _na_flags(op["flags"], op["target"] == "score")
            return tgt.note_array(**fl)
        if k == "rest_array":
            fl = _na_flags(op["flags"], False)
            fl = {kk: v for kk, v in fl.items() if kk in ("include_pitch_spelling", "include_key_signature", "include_time_signature", "include_staff")}
            if op["target"] == "score":
                return M.rest_array_from_part_list(tgt.parts, **fl)
            return tgt.rest_array(**fl)
        if k == "pianoroll":
            pr = M.compute_pianoroll(tgt, onset_only=op["onset_only"])
            return np.asarray(pr.todense())
        if k == "maps":
            ts = list(range(0, (tgt.last_point.t if tgt.last_point else 0) + 2))
            out = {}
            for name in ("time_signature_map", "key_signature_map", "measure_map", "measure_number_map", "beat_map", "inv_beat_map", "quarter_map", "inv_quarter_map", "quarter_duration_map", "clef_map", "metrical_position_map"):
                try:
                    f = getattr(tgt, name)
                    out[name] = np.asarray(f(np.array(ts))).tolist()
                except Exception as e:
                    out[name] = "raised:" + type(e).__name__
            out["number_of_staves"] = tgt.number_of_staves
            return out
        if k == "pretty":
            return tgt.pretty()
        if k == "unfold_max":
            r = S.unfold_part_maximal(tgt, update_ids=op["update_ids"], ignore_leaps=op["ignore_leaps"])
            _container_consistent(res, r, k)
            return FP.value_fp(r)
        if k == "unfold_min":
            r = S.unfold_part_minimal(tgt)
            _container_consistent(res, r, k)
            return FP.value_fp(r)
        if k == "get_paths":
            a, b, c = op["flags"]
            return [list(p.path) for p in S.get_paths(tgt, no_repeats=a, all_repeats=b, ignore_leap_info=c)]
        if k == "segments":
            segs = tgt.segments
            return [[s.id, list(s.to), s.start.t, s.end.t] for s in segs] + [S.pretty_segments(tgt)]
        if k == "estimate":
            na = tgt.note_array()
            from partitura import musicanalysis as MA

            if op["what"] == "spelling":
                return MA.estimate_spelling(na)
            if op["what"] == "voices":
                return MA.estimate_voices(na)
            return MA.estimate_key(na)
        if k == "transpose":
            num, qual = INTERVALS[op["interval"]]
            r = M.transpose(tgt, S.Interval(num, qual))
            _container_consistent(res, r, k)
            return FP.value_fp(r)
        if k == "group_views":
            # read-only views taken on part groups and on the score's own structure list
            out = []
            stack = [x for x in w.score.part_structure if isinstance(x, S.PartGroup)]
            while stack:
                g = stack.pop(0)
                stack.extend(x for x in g.children if isinstance(x, S.PartGroup))
                try:
                    out.append(FP.digest(g.note_array().tolist())[:12])
                except Exception as e:
                    if not any("/partitura/" in f.filename for f in __import__("traceback").extract_tb(e.__traceback__)):
                        raise
                    out.append("raised:" + type(e).__name__)
            try:
                out.append(FP.digest(M.note_array_from_part_list(w.score.part_structure).tolist())[:12])
            except Exception as e:
                if not any("/partitura/" in f.filename for f in __import__("traceback").extract_tb(e.__traceback__)):
                    raise
                out.append("raised:" + type(e).__name__)
            return out
        if k == "len_getitem":
            n = len(tgt)
            r = [n] + [tgt[i].id for i in range(n)] + [tgt[-1].id]
            if op.get("slices"):
                a, b = op["slices"]
                # indexing with a slice gives the parts at those positions (a list today; whatever container comes
                # back is read through iteration) and, like any indexing, leaves the container alone
                r.append([getattr(x, "id", None) for x in tgt[a:b]])
            return r
        if k == "perf_midi":
            o = out_for(op["route"])
            from partitura.io.exportmidi import save_performance_midi

            if isinstance(o, PathOut):
                save_performance_midi(tgt, o.path)
                return bytes(o.data)
            buf = io.BufferedWriter(o, buffer_size=64)
            save_performance_midi(tgt, buf)
            return _finish(buf, o)
        if k == "perf_array":
            return tgt.note_array()
        if k.startswith("na_"):
            na = w.arrays[op["arr"] % len(w.arrays)]
            if k == "na_slice":
                on, du = na["onset_beat"], na["duration_beat"]
                if len(na) == 0:
                    return None
                if op["which"] == "last_onset":
                    # window containing every onset but ending before the last offset
                    a, b = float(on.min()) - 0.5, float(on.max()) + 1e-3
                elif op["which"] == "span":
                    a, b = float(on.min()), float((on + du).max())
                else:
                    a, b = float(op["a"]), float(op["a"] + op["b"])
                return M.slice_notearray_by_time(na, a, b, clip_onset_duration=op["clip"])
            if k == "na_pianoroll":
                return np.asarray(M.compute_pianoroll(na).todense())
            if k == "na_estimate":
                from partitura import musicanalysis as MA

                if op["what"] == "spelling":
                    return MA.estimate_spelling(na)
                if op["what"] == "voices":
                    return MA.estimate_voices(na)
                return MA.estimate_key(na)
            if k == "na_to_score":
                from partitura.musicanalysis.note_array_to_score import note_array_to_score

                return FP.value_fp(note_array_to_score(na[["onset_beat", "duration_beat", "pitch"]] if False else na))
        if k == "num_tracks":
            return [w.perf.num_tracks] + [pp.num_tracks for pp in w.perf.performedparts]
        if k == "save_match_file":
            from partitura.io.exportmatch import save_match

            o = out_for("path")
            sd = {"score": w.score, "list": list(w.score.parts)}.get(op.get("score_form"), w.score.parts[0])
            save_match(w.align, w.perf.performedparts[0], sd, o.path, assume_unfolded=not op.get("auto_unfold"))
            return bytes(o.data)
        if k == "save_match":
            from partitura.io.exportmatch import matchfile_from_alignment

            mf = matchfile_from_alignment(w.align, w.perf.performedparts[0], w.score.parts[0], assume_part_unfolded=not op.get("auto_unfold"))
            return [str(l.matchline) for l in mf.lines]
        raise ValueError("unknown op %r" % (k,))
    except (SimCrash, FsCrash):
        return ("crashed", "SimCrash")
    except Exception as e:
        import traceback

        tb = traceback.extract_tb(e.__traceback__)
        if not any("/partitura/" in f.filename or "/mido/" in f.filename or "/lxml" in f.filename or "/numpy/" in f.filename for f in tb):
            raise
        res.count("raised:%s:%s" % (k, type(e).__name__))
        return ("raised", type(e).__name__)
    finally:
        w.fs.faults = []
        for kk, v in w.fs.fired.items():
            if v != fired0.get(kk, 0):
                res.fault(kk, v - fired0.get(kk, 0))


def _finish(buf, o):
    """the caller (this harness) flushes and closes its own file-like target;
    an injected error surfacing here is the caller's, the export is then not
    acknowledged"""
    try:
        buf.flush()
        buf.close()
    except OSError as e:
        return ("raised", "OSError")
    return bytes(o.data)


def _tkind(op):
    t = op.get("target")
    if t is None:
        return "array" if "arr" in op else None
    return "part" if t.startswith("part") else t


def opkey(op):
    o = {k: v for k, v in op.items() if k != "fault"}
    import json

    return json.dumps(o, sort_keys=True)


def diff_shape(sa, sb):
    """Canonical description of which (class, attribute) pairs of PRE-EXISTING
    objects differ (new objects follow from the changed references and are not
    part of the shape, except when nothing else changed)."""
    shape = set()
    newcls = set()
    for k in set(sa) | set(sb):
        if k not in sa:
            newcls.add("new:" + sb[k].get("cls", "?"))
        elif k not in sb:
            shape.add("gone:" + sa[k].get("cls", "?"))
        else:
            ra, rb = sa[k], sb[k]
            for name in set(ra) | set(rb):
                va, vb = ra.get(name, None), rb.get(name, None)
                if va != vb:
                    if name in ("starting_objects", "ending_objects") and isinstance(va, dict) and isinstance(vb, dict):
                        for c in set(va) | set(vb):
                            if va.get(c) != vb.get(c):
                                shape.add("%s.%s[%s]" % (ra.get("cls"), name, c))
                    else:
                        shape.add("%s.%s" % (ra.get("cls"), name))
    if not shape:
        shape = newcls
    return "|".join(sorted(shape))


def execute(case, keep_log=False):
    import partitura  # noqa

    res = Result(keep_log)
    old_limit = sys.getrecursionlimit()
    sys.setrecursionlimit(case["knobs"].get("reclimit", 1000))
    try:
        return _execute(case, res)
    finally:
        sys.setrecursionlimit(old_limit)


def _execute(case, res):
    fs = SimFS(chunk=case["knobs"].get("chunk", 0))
    with fs:
        return _execute_in(case, res, fs)


def _execute_in(case, res, fs):
    w = World(case, res, simfs=fs)
    parts = w.score.parts
    res.log.add("world", "init", {"parts": [p.id for p in parts], "perf": w.perf is not None, "clients": len(case["programs"]), "profile": case["knobs"].get("profile")})
    g0 = G.fingerprint()
    state = {"snap": w.snap(), "results": {}, "seen_ops": set(), "fresh": {}, "last_op": None, "iterating": {}, "repeat_after_other": False, "overlap": False, "fault_fired": False, "beats": {}}

    def check_globals(op):
        g1 = G.fingerprint()
        if g1 != g0:
            d = [k for k in g0 if g0[k] != g1.get(k)]
            res.violation("O5-globals", op, "process-global state changed: %s (%s -> %s)" % (d, [g0[k] for k in d], [g1.get(k) for k in d]), site=",".join(d))
            G.restore(g0)

    def check_nonmutation(opname, op):
        s1 = w.snap()
        s0 = state["snap"]
        if s1 != s0:
            shape = diff_shape(s0, s1)
            if opname in ("get_paths", "segments") and shape == SEGMENT_SHAPE:
                # add_segments / Part.segments / get_paths are documented to add Segment objects to the part
                state["snap"] = s1
                return
            res.violation("O3-nonmutation", opname, "%s changed its argument/world: %s" % (op, "; ".join(FP.diff_snapshots(s0, s1))), site=shape, target=_tkind(op))
            state["snap"] = s1

    def seg_state():
        # which parts carry cached Segment objects (known finding KF-C20-segments:
        # unfolding a Part stores Segment objects on it); the fresh world is put
        # into the same cache state so that only the direct manifestation of that
        # finding is reported, not its consequences for later calls
        return tuple(any(True for _ in p.iter_all(w.S.Segment)) for p in parts)

    def beat_state():
        return repr(sorted((pi, tuple(h)) for pi, h in state["beats"].items()))

    def fresh_result(op, segs=None):
        segs = seg_state() if segs is None else segs
        key = opkey(op) + repr(segs) + beat_state()
        if key not in state["fresh"]:
            fw = World(case, res, simfs=fs)
            for pi, hist in sorted(state["beats"].items()):
                for v, m_ in hist:
                    apply_beats(fw.score.parts[pi], v, m_)
            for has, p in zip(segs, fw.score.parts):
                if has:
                    w.S.add_segments(p)
            clean = {k: v for k, v in op.items() if k != "fault"}
            state["fresh"][key] = FP.digest(FP._vrender(run_atomic(fw, clean, res)))
        return state["fresh"][key]

    def atomic(cname, op):
        name = op["k"] + (":auto" if op.get("auto_unfold") else "")
        if op["k"] == "set_beats":
            pi = int(op["target"][4:]) % len(parts)
            out = apply_beats(parts[pi], op["variant"], op.get("m", 0))
            state["beats"].setdefault(pi, []).append((op["variant"], op.get("m", 0)))
            state["snap"] = w.snap()
            res.probe("beat_setting_changed_between_views")
            res.log.add(cname, name, {"op": op, "result": out})
            res.sigadd(cname, name, None)
            state["last_op"] = opkey(op)
            return
        if state["last_op"] is not None and state["last_op"] != opkey(op) and opkey(op) in state["seen_ops"]:
            res.probe("repeat_after_other_op")
            state["repeat_after_other"] = True
        segs_before = seg_state()
        state["seen_ops"].add(opkey(op))
        r = run_atomic(w, op, res)
        faulted = bool(op.get("fault")) and isinstance(r, tuple) and len(r) == 2 and r[0] in ("raised", "crashed")
        if op.get("fault") and faulted:
            res.probe("export_fault_fired")
            state["fault_fired"] = True
        dg = FP.digest(FP._vrender(r))
        res.log.add(cname, name, {"op": {k: v for k, v in op.items() if k != "body"}, "result": dg[:16]})
        res.sigadd(cname, name, op.get("fault", {}).get("kind") if faulted else None)
        check_nonmutation(name, op)
        check_globals(name)
        res.state(name, _tkind(op), seg_state(), tuple(sorted((c, tuple(sorted(v))) for c, v in state["iterating"].items() if v)), faulted)
        if faulted:
            # O6: a fault-free retry gives the fault-free result
            clean = {k: v for k, v in op.items() if k != "fault"}
            r2 = run_atomic(w, clean, res)
            d2 = FP.digest(FP._vrender(r2))
            check_nonmutation(name + ":retry", clean)
            if d2 != fresh_result(clean, segs_before):
                res.violation("O6-retry", name, "after an injected %s a fault-free retry of %s differs from a fault-free world" % (op["fault"]["kind"], clean))
            state["last_op"] = opkey(op)
            return
        if isinstance(r, tuple) and len(r) == 2 and r[0] == "raised":
            res.probe("op_raised_consistently")
        if not op.get("fault") or not faulted:
            key = opkey(op) + repr(segs_before) + beat_state()
            prev = state["results"].get(key)
            if prev is not None and prev != dg:
                res.violation("O4-repeatable", name, "%s gave a different result when called again on the unchanged argument" % (op,), site="same-world")
            state["results"].setdefault(key, dg)
            fr = fresh_result(op, segs_before)
            if fr != dg:
                res.violation("O4-repeatable", name, "%s on the shared object differs from the same call on a freshly built equal object (result depends on call history)" % (op,), site="fresh-world")
        state["last_op"] = opkey(op)

    def enter_iter(cname, cont):
        it = state["iterating"].setdefault(cont, set())
        if it - {cname}:
            res.probe("two_clients_mid_iteration")
            state["overlap"] = True
        it.add(cname)

    def leave_iter(cname, cont):
        state["iterating"].get(cont, set()).discard(cname)

    def loop(cname, container, cont_name, expected, brk=None, body=None):
        """for x in container: ... with a yield before every next()"""
        seen = []
        enter_iter(cname, cont_name)
        it = iter(container)
        res.log.add(cname, "iter", cont_name)
        yield
        budget = len(expected) + 1
        calls = 0
        while True:
            if state["iterating"].get(cont_name, set()) - {cname}:
                res.probe("two_clients_mid_iteration")
                state["overlap"] = True
            calls += 1
            if calls > budget:
                res.violation("O2-liveness", "loop", "loop over %d items of %s did not end within %d next() calls (saw %s)" % (len(expected), cont_name, budget, seen[:8]))
                break
            try:
                x = next(it)
            except StopIteration:
                break
            seen.append(getattr(x, "id", None))
            res.log.add(cname, "next", seen[-1])
            res.sigadd(cname, "next")
            if brk is not None and len(seen) > brk:
                res.probe("partial_loop")
                break
            if body is not None:
                res.probe("loop_body_calls_entry_point")
                atomic(cname, body)
            yield
        leave_iter(cname, cont_name)
        want = expected if brk is None else expected[: brk + 1]
        if seen != want and not any(v["oracle"] == "O2-liveness" for v in res.violations):
            res.violation("O1-iteration", "loop", "a loop over %s visited %s, expected %s" % (cont_name, seen, want), site=cont_name)
        check_globals("loop")

    def client(cname, prog):
        S = w.S
        for op in prog:
            if res.violations:
                return
            k = op["k"]
            if k == "loop":
                yield from loop(cname, w.score, "score", [p.id for p in parts])
            elif k == "perf_loop":
                yield from loop(cname, w.perf, "perf", [pp.id for pp in w.perf.performedparts])
            elif k == "partial":
                yield from loop(cname, w.score, "score", [p.id for p in parts], brk=op["brk"])
            elif k == "loop_call":
                yield from loop(cname, w.score, "score", [p.id for p in parts], body=op["body"])
            elif k == "nested":
                res.probe("nested_loop")
                outer = []
                enter_iter(cname, "score")
                it = iter(w.score)
                yield
                calls = 0
                while calls <= len(parts) + 1:
                    calls += 1
                    try:
                        a = next(it)
                    except StopIteration:
                        break
                    inner = []
                    it2 = iter(w.score)
                    c2 = 0
                    while c2 <= len(parts) + 1:
                        c2 += 1
                        try:
                            b = next(it2)
                        except StopIteration:
                            break
                        inner.append(b.id)
                        yield
                    outer.append((a.id, inner))
                    res.log.add(cname, "nested-row", [a.id, inner])
                leave_iter(cname, "score")
                want = [(p.id, [q.id for q in parts]) for p in parts]
                if outer != want:
                    if calls > len(parts) + 1:
                        res.violation("O2-liveness", "nested", "nested loop did not terminate within its step budget; rows %s" % (outer[:4],))
                    else:
                        res.violation("O1-iteration", "nested", "nested loops over the score visited %s, expected every part once per row" % (outer,), site="score")
            elif k == "iter_unfolded":
                part = w.target(op["target"])
                try:
                    g = S.iter_unfolded_parts(part, update_ids=True)
                    got = []
                    for _ in range(op["take"]):
                        res.probe("lazy_generator_interleaved")
                        try:
                            got.append(FP.digest(FP.value_fp(next(g))))
                        except StopIteration:
                            break
                        res.log.add(cname, "unfolded-item", got[-1][:12])
                        check_nonmutation("iter_unfolded", op)
                        yield
                    g.close()
                except Exception as e:
                    res.log.add(cname, "iter_unfolded-raised", type(e).__name__)
                s1 = w.snap()
                if s1 != state["snap"]:
                    res.violation("O3-nonmutation", "iter_unfolded", "iter_unfolded_parts changed its argument: %s" % "; ".join(FP.diff_snapshots(state["snap"], s1)), site=diff_shape(state["snap"], s1), target="part")
                    state["snap"] = s1
            else:
                atomic(cname, op)
            yield

    tasks = [("c%d" % i, client("c%d" % i, prog)) for i, prog in enumerate(case["programs"])]
    sc = sched.Scheduler(tasks, case["schedule"], res.log, max_steps=1500)
    try:
        sc.run()
    except sched.StepBudgetExceeded as e:
        res.violation("O2-liveness", "world", str(e))
    for tid, e in sorted(sc.errors.items()):
        raise e
    res.count("context_switches", sc.switches)
    res.nontrivial = bool(state["overlap"] or state["repeat_after_other"] or state["fault_fired"])
    res.log.add("world", "end", None)
    return res


def shrink_spec(case):
    paths = [("programs", i) for i in range(len(case["programs"]))] + [("schedule",)]

    def drop_parts(c):
        asc = c["workload"]
        if len(asc["parts"]) > 1 and not asc.get("groups"):
            for i in range(len(asc["parts"])):
                d = copy.deepcopy(c)
                del d["workload"]["parts"][i]
                yield d
        if asc.get("groups"):
            d = copy.deepcopy(c)
            d["workload"]["groups"] = None
            yield d
        if c.get("perf_seed") is not None:
            d = copy.deepcopy(c)
            d["perf_seed"] = None
            yield d
        for pi, p in enumerate(asc["parts"]):
            for key in ("dirs", "slurs", "tuplets", "tempos", "fermatas"):
                if p.get(key):
                    d = copy.deepcopy(c)
                    d["workload"]["parts"][pi][key] = []
                    yield d

    return paths, [drop_parts]


def case_size(case):
    return {"clients": len(case["programs"]), "ops": sum(len(p) for p in case["programs"]), "schedule": len(case["schedule"]), "parts": len(case["workload"]["parts"]), "notes": sum(len(p["notes"]) for p in case["workload"]["parts"])}
