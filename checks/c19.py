"""C19 - MEI and Humdrum kern through the storage world (DESIGN 3.9).

Direction 1 (peer -> partitura): the independent encoders model/ref_mei.py and
model/ref_kern.py write an abstract score onto SimFS; load_mei / load_kern /
load_score (dispatch by extension, lower and upper case, path and URL route)
read it.  Direction 2 (partitura -> partitura): save_mei / save_kern of a built
score -> SimFS -> load.  The simulator owns the file system, its faults, the
routes/spellings and the encoding style knobs."""
import copy
from fractions import Fraction as F

from model import build, fingerprint as FP, gen, ref_kern, ref_mei
from sim import glob as G
from sim import rng as R
from sim.result import Result
from sim.simfs import Fault, SimCrash, SimFS
from checks.c04 import Timeout, with_timeout

ID = "C19"
CONFIGS = ("kern-in", "mei-in", "kern-rt", "mei-rt")
TIERS = {
    "quick": {"runs": 1600, "wall": 240, "gate": 16, "run_timeout": 180},
    "thorough": {"runs": 120000, "wall": 1500, "gate": 64, "run_timeout": 180},
}
SHRINK_BUDGET = 250
RULE = (
    "each run = one generated abstract score of the supported subset (1-3 parts, one divisions value per part, chords, dotted and "
    "tuplet values, ties, grace notes, rests, several staves/voices) either encoded by an independent kern or MEI writer with sampled "
    "style knobs (meter/key/clef as attributes or children, ppq given or not, measure rests) and loaded over a sampled route "
    "(load_kern/load_mei, load_score with lower/upper-case extension, URL peer) with read faults, or exported by save_kern/save_mei "
    "with write faults and loaded back; non-trivial = >=2 spines/staves or tuplets or ties or a fault fired; distinct = distinct "
    "(format, direction, shape, style, route/fault) signatures"
)
ASSUMPTIONS = [
    "direction 1 compares, per spine/staff, the multiset of (onset, duration in exact quarters, step, alteration, octave, grace) with ties joined, measure starts, and the declared meter, key and clef",
    "a measure object that starts at the final barline (zero length) is not counted",
    "direction 2 compares (onset, duration, MIDI pitch, staff) of every pitched note with ties merged, as the property states 'at least'",
    "verovio is not installed: the lxml branch of the MEI reader is the one that runs",
]
COMPONENTS = {"real": ["partitura.io.importkern", "partitura.io.exportkern", "partitura.io.importmei", "partitura.io.exportmei", "partitura.io.load_score", "numpy loadtxt/genfromtxt/savetxt", "lxml"], "stub": ["raw file layer (SimFS)", "HTTP client (fake urlopen)", "independent kern and MEI encoders (model/ref_kern.py, model/ref_mei.py)"]}
PROBES = ("kern_spine_split_fallback_reader", "load_score_as_part", "kern_force_same_part", "kern_two_spines_on_one_staff", "kern_spine_split_with_notes", "kern_same_part", "mei_dur_ppq", "mei_dur_ppq_only", "kern_multi_spine", "kern_ties", "kern_tuplets", "kern_grace", "mei_attr_defs", "mei_child_defs", "mei_no_ppq", "mei_layers", "mei_tuplets", "mei_meter_change", "mei_key_change_with_meter_change", "upper_case_extension", "url_route", "url_short_reads", "read_fault", "write_fault", "export_roundtrip_checked", "rich_export_strict_kern", "rich_export_strict_mei", "rich_export_strict_tuplets")


# ----------------------------------------------------------------------------


def generate(seed, tier, cfg):
    st = R.Streams(seed)
    k, o, f = st.knobs, st.ops, st.faults
    fmt = "kern" if cfg.startswith("kern") else "mei"
    # the MEI subset of the property has no pickups or meter changes; MEI export takes one part
    rich = True
    if cfg.endswith("-rt"):
        # direction 2: half of the runs use parts both writers handle today (one voice on one staff, plain and
        # dotted values, rests), the other half the full subset (known findings KF-C19-*-export-rich)
        rich = k.random() < 0.5
    asc = gen.gen_score(st.workload, profile=("kernmei" if fmt == "kern" else ("mei2" if cfg == "mei-in" else "mei")) if rich else "simple", size=gen.pick_size(tier, st.knobs))
    if cfg == "mei-in" and k.random() < 0.06:
        asc = tiny_compound(k)
    x_ = k.random()
    if x_ < 0.05:
        asc = tiny_breve(k)
    elif x_ < 0.08:
        asc = tiny_big_chords(k)
    elif x_ < 0.11 and cfg.endswith("-in"):
        asc = tiny_many_staves(k)
    mid = False
    if cfg.endswith("-rt") and rich and k.random() < 0.5:
        # middle level: the full subset minus what the writers are known not to handle (ties, grace notes,
        # unbracketed tuplets), so that chords, voices, staves, dots and bracketed tuplets are asserted strictly
        mid = True
        strip_unsupported(asc, fmt)
    if cfg.endswith("-rt"):
        asc["parts"] = asc["parts"][:1]
    ext = {"kern": k.choice((".krn", ".kern", ".krn", ".KRN")), "mei": k.choice((".mei", ".mei", ".MEI"))}[fmt]
    route = k.choice(("direct", "direct", "load_score", "load_score", "url", "as_part", "force_same") if cfg.endswith("-in") else ("direct", "direct", "load_score", "load_score", "url"))
    faults = []
    if k.random() < 0.35:
        if cfg.endswith("-in"):
            kind = f.choice(("F5", "F6", "F6", "F9"))
        else:
            kind = f.choice(("F1", "F2", "F2", "F3", "F4", "F5", "F6"))
        err = {"F1": 28, "F2": f.choice((28, 5)), "F3": 28, "F4": 0, "F5": f.choice((2, 13)), "F6": 5, "F9": f.choice((0, 404, -1))}[kind]
        faults.append({"kind": kind, "path": "*", "at": f.choice((0, 0, 1, 2)) if kind in ("F2", "F4", "F6") else 0, "errno": err, "frac": (round(f.random(), 3) if kind in ("F2", "F4", "F6") and f.random() < 0.5 else None)})
    cross = False
    if cfg == "mei-rt" and rich and k.random() < 0.3:
        # a voice that visits the other staff for one note (cross-staff notation)
        for p in asc["parts"]:
            staves = sorted(set(n["staff"] for n in p["notes"]))
            cands = [n for n in p["notes"] if n["kind"] == "note" and not n.get("tie_next") and not n.get("tie_prev") and not n.get("grace_prev") and n.get("g") is None]
            if len(staves) == 2 and cands:
                n = cands[k.randrange(0, len(cands))]
                n["staff"] = staves[0] if n["staff"] == staves[1] else staves[1]
                cross = True
                break
    knobs = _knobs(k, rich, ext, route)
    knobs["mid"] = mid
    knobs["cross_staff"] = cross
    if cfg == "kern-in" and knobs["style"]["same_part"] and len(asc["parts"]) > 1:
        # several spines of ONE part (e.g. the staves of a piano part): keep a part that has two staves
        two = [p for p in asc["parts"] if len(set(n["staff"] for n in p["notes"])) > 1]
        if two:
            asc["parts"] = two[:1]
            asc.pop("groups", None)
    return {"workload": asc, "cfg": cfg, "faults": faults, "knobs": knobs}


def _knobs(k, rich, ext, route):
    return {
        "knobs": {"rich": rich, "ext": ext, "route": route, "chunk": k.choice((0, 0, 7, 64)), "style": {"attr_defs": k.random() < 0.5, "beams": False, "ppq": k.random() < 0.5, "mrest": True, "durppq": k.random() < 0.5, "naturals": k.random() < 0.5, "extra_voices": k.random() < 0.5, "keychg": k.choice((None, None, 2, -3, 0, 5)), "same_part": k.random() < 0.7, "split": [k.randrange(0, 8), k.randrange(0, 8), k.random() < 0.6] if k.random() < 0.45 else None}},
    }["knobs"]


def load_any(fs, path, route, fmt, res):
    import partitura as pt
    from partitura.io.importkern import load_kern
    from partitura.io.importmei import load_mei

    if route == "direct":
        return load_kern(path) if fmt == "kern" else load_mei(path)
    if route == "load_score":
        return pt.load_score(path)
    if route == "as_part":
        # the convenience loader that returns one merged Part: notes keep the staff the notation gives them
        import partitura.score as S

        res.probe("load_score_as_part")
        res.notes_only = True
        return S.Score([pt.load_score_as_part(path)])
    if route == "force_same":
        if fmt != "kern":
            return load_mei(path)
        res.probe("kern_force_same_part")
        sc = load_kern(path, force_same_part=True)
        if len(sc.parts) != 1:
            res.violation("N4-parts", "load", "load_kern(force_same_part=True) returned %d parts" % len(sc.parts), site="force_same_part")
        res.notes_only = True
        return sc
    res.probe("url_route")
    url = "http://peer.example/" + path.split("/")[-1]
    fs.serve(url, fs.get(path))
    if fs.chunk:
        # the peer delivers the body in pieces: a sized read may return less than asked before the end
        fs.url_short_reads = [fs.chunk, 1, fs.chunk * 3]
        res.probe("url_short_reads")
    return pt.load_score(url)


def loaded_by_staff(score):
    """{staff number: sorted [(onset_q, dur_q, step, alter, octave, grace)]} with ties joined, plus per-part info"""
    import partitura.score as S

    import numpy as np

    out = {}
    info = {}
    nonint = info.setdefault("_nonint", [])
    for part in score.parts:
        q = int(part._quarter_durations[0])
        if len(part._quarter_durations) != 1:
            q = None
        for qd in part._quarter_durations:
            if not isinstance(qd, (int, np.integer)) or qd <= 0:
                nonint.append(("divisions", qd, type(qd).__name__))
        for n in part.iter_all(S.Note, include_subclasses=True):
            if n.tie_prev is not None:
                continue
            grace = isinstance(n, S.GraceNote)
            qq = int(part.quarter_duration_map(n.start.t))
            if qq <= 0:
                nonint.append(("divisions", float(part.quarter_duration_map(n.start.t)), "in force at t=%s" % n.start.t))
                qq = 1
            if not all(isinstance(x, (int, np.integer)) for x in (n.start.t, n.duration_tied)):
                nonint.append((n.id, n.start.t, n.duration_tied))
            out.setdefault(n.staff, []).append((F(n.start.t) / qq, F(0) if grace else F(n.duration_tied) / qq, n.step, n.alter or 0, n.octave, grace))
            info.setdefault(n.staff, part)
    return {k: sorted(v, key=repr) for k, v in out.items()}, info


def spelled_pitch_mismatch(score):
    """first (step, alter, octave, midi_pitch, denoted) whose MIDI pitch is not the one its spelling denotes, or None"""
    import partitura.score as S

    for part in score.parts:
        for n in part.iter_all(S.Note, include_subclasses=True):
            want = gen.midi_pitch(n.step, n.alter or 0, n.octave)
            if int(n.midi_pitch) != want:
                return (n.step, n.alter or 0, n.octave, int(n.midi_pitch), want)
    return None


def voices_by_note(score, staff):
    """{(onset_q, step, alter, octave): voice} of the tie-head notes on one staff"""
    import partitura.score as S

    out = {}
    for part in score.parts:
        for n in part.iter_all(S.Note, include_subclasses=False):
            if n.staff != staff or n.tie_prev is not None:
                continue
            qq = int(part.quarter_duration_map(n.start.t))
            out[(F(n.start.t, qq), n.step, n.alter or 0, n.octave)] = n.voice
    return out


def part_structure(part):
    import partitura.score as S

    q = int(part._quarter_durations[0])
    end = part.last_point.t if part.last_point else 0
    return {
        "measures": sorted(F(m.start.t, q) for m in part.iter_all(S.Measure) if m.start.t < end),
        "timesigs": sorted((F(o.start.t, q), o.beats, o.beat_type) for o in part.iter_all(S.TimeSignature)),
        "keys": sorted((F(o.start.t, q), o.fifths) for o in part.iter_all(S.KeySignature)),
        "clefs": sorted((F(o.start.t, q), o.staff, o.sign, o.line) for o in part.iter_all(S.Clef)),
    }


def join_kern(exp_notes):
    res = []
    open_ = {}
    for q, d, step, alter, octave, grace, tp, tn in exp_notes:
        key = (step, alter, octave)
        if tp and key in open_:
            i = open_.pop(key)
            a = res[i]
            res[i] = (a[0], (q + d) - a[0], a[2], a[3], a[4], a[5])
            if tn:
                open_[key] = i
            continue
        res.append((q, d, step, alter, octave, grace))
        if tn:
            open_[key] = len(res) - 1
    return sorted(res, key=repr)


def shape_of(asc):
    return {
        "parts": len(asc["parts"]),
        "staves": sum(len(set(n["staff"] for n in p["notes"])) for p in asc["parts"]),
        "tuplets": any(n.get("g") is not None for p in asc["parts"] for n in p["notes"]),
        "ties": any(n.get("tie_next") for p in asc["parts"] for n in p["notes"]),
        "grace": any(n["kind"] == "grace" for p in asc["parts"] for n in p["notes"]),
    }


def fmtn(x):
    return [(str(a), str(b), c, d, e, g) for a, b, c, d, e, g in x]


def execute(case, keep_log=False):
    res = Result(keep_log)
    asc, kn, cfg = case["workload"], case["knobs"], case["cfg"]
    fmt = "kern" if cfg.startswith("kern") else "mei"
    shape = shape_of(asc)
    res.log.add("world", "init", {"cfg": cfg, "shape": shape, "knobs": kn, "faults": case["faults"]})
    if kn["ext"] != kn["ext"].lower():
        res.probe("upper_case_extension")
    fs = SimFS(chunk=kn["chunk"])
    path = "/simfs/piece" + kn["ext"]
    faults = [Fault(f["kind"], f["path"], f["at"], f["errno"], frac=f.get("frac")) for f in case["faults"]]
    nontrivial = shape["staves"] >= 2 or shape["tuplets"] or shape["ties"]
    with fs:
        g0 = G.fingerprint()
        if cfg.endswith("-in"):
            run_in(res, fs, asc, kn, fmt, path, faults, shape)
        else:
            run_rt(res, fs, asc, kn, fmt, path, faults, shape)
        if fs.fired:
            nontrivial = True
            for kk, v in fs.fired.items():
                res.fault(kk, v)
        g1 = G.fingerprint()
        if g1 != g0:
            d = [kk for kk in g0 if g0[kk] != g1.get(kk)]
            res.violation("O5-globals", cfg, "process-global state changed: %s" % d, site=",".join(d))
            G.restore(g0)
    res.state(cfg, kn["route"], kn["ext"].lower(), tuple(sorted(fs.fired.items())), tuple(sorted((v["oracle"], v["site"]) for v in res.violations)))
    res.sigadd(cfg, tuple(sorted(shape.items())), kn["ext"], kn["route"], tuple(sorted(kn["style"].items())), tuple(sorted(fs.fired.items())))
    res.nontrivial = bool(nontrivial)
    res.log.add("world", "end", None)
    return res


def run_in(res, fs, asc, kn, fmt, path, faults, shape):
    if fmt == "kern":
        same_part = bool(kn["style"].get("same_part")) and len(asc["parts"]) == 1
        text, exp = ref_kern.encode(asc, same_part=same_part, split=kn["style"].get("split"), extra_voices=bool(kn["style"].get("extra_voices")))
        if text and exp.get("split"):
            res.probe("kern_spine_split_fallback_reader")
            if exp["split"] == "notes":
                res.probe("kern_spine_split_with_notes")
        if same_part and text and len(exp["spines"]) > 1:
            res.probe("kern_same_part")
        data = text.encode("utf-8") if text else None
    else:
        data, exp = ref_mei.encode(asc, kn["style"])
    if data is None:
        res.log.add("world", "skip", "outside the encodable subset")
        return
    if fmt == "kern":
        if len(exp["spines"]) > 1:
            res.probe("kern_multi_spine")
        for key, probe in (("ties", "kern_ties"), ("tuplets", "kern_tuplets"), ("grace", "kern_grace")):
            if shape[key]:
                res.probe(probe)
    else:
        res.probe("mei_attr_defs" if kn["style"]["attr_defs"] else "mei_child_defs")
        if not kn["style"]["ppq"]:
            res.probe("mei_no_ppq")
            if kn["style"].get("durppq"):
                res.probe("mei_dur_ppq_only")
        elif kn["style"].get("durppq"):
            res.probe("mei_dur_ppq")
        if shape["tuplets"]:
            res.probe("mei_tuplets")
    fs.put(path, data)
    fs.expect_transfer(len(data))
    res.log.add("peer", "encode", {"format": fmt, "bytes": len(data), "digest": FP.digest(data)[:16]})
    fs.faults = faults
    fired_before = dict(fs.fired)
    try:
        score = with_timeout(30, load_any, fs, path, kn["route"], fmt, res)
        outcome = "loaded"
    except Timeout:
        res.violation("L1-termination", "load", "loading a %s file of the supported subset did not terminate within the budget" % fmt, site=fmt)
        return
    except SimCrash:
        outcome = "crashed"
    except Exception as e:
        outcome = "raised:" + type(e).__name__
        err = e
    faulted = fs.fired != fired_before
    res.log.add("client", "load", {"route": kn["route"], "outcome": outcome, "faulted": faulted})
    if faulted:
        res.probe("read_fault")
        # after a faulted load a fault-free load of the same bytes gives the strict result
        fs.faults = []
        try:
            score = load_any(fs, path, "direct", fmt, res)
            outcome = "loaded"
        except Exception as e:
            res.violation("D2-isolation", "load", "after an injected read fault a fault-free load of the same file raised %s: %s" % (type(e).__name__, e), site=fmt)
            return
    if outcome != "loaded":
        import traceback

        tb = traceback.extract_tb(err.__traceback__)
        site = [f for f in tb if "/partitura/" in f.filename]
        res.violation("N0-load-raised", "load", "%s file of the supported subset could not be loaded over route %s: %s: %s" % (fmt, kn["route"], type(err).__name__, err), site=site[-1].name if site else type(err).__name__)
        return
    got, info = loaded_by_staff(score)
    nonint = info.pop("_nonint")
    if nonint:
        # positions and divisions are whole numbers in every part (parts with float divisions cannot be merged, float
        # time points cannot be written again)
        res.violation("N5-grid", "load", "%s: loaded part has non-integer time values: %s" % (fmt, nonint[:3]), site="divisions" if nonint[0][0] == "divisions" else "time-points")
        return
    bad = spelled_pitch_mismatch(score)
    if bad:
        res.violation("N4-pitch", "load", "%s: a loaded note spelled %s%+d in octave %d has MIDI pitch %d, its spelling denotes %d" % ((fmt,) + bad), site="spelling:" + ("wrap" if (bad[0], bad[1] > 0) in (("B", True), ("C", False)) else "other"))
        return
    if fmt == "kern":
        # several spines may share a staff (one spine per voice): their notes are compared together, and each spine is
        # a voice of its own
        by_staff = {}
        for sp in exp["spines"]:
            by_staff.setdefault(sp["staff"] + 2 * sp["part"], []).append(sp)
        merged = []
        for stn_, sps in sorted(by_staff.items()):
            m0 = dict(sps[0])
            m0["notes"] = [x for sp_ in sps for x in sp_["notes"]]
            m0["_spines"] = sps
            merged.append(m0)
        for sp in merged:
            stn = sp["staff"] + 2 * sp["part"]
            want = sorted(x for sp_ in sp["_spines"] for x in join_kern(sp_["notes"]))
            want = sorted(want, key=repr)
            have = got.get(stn, [])
            if want != have:
                miss = [x for x in want if x not in have][:3]
                extra = [x for x in have if x not in want][:3]
                # a tie whose start or end is a member of a chord
                chord_tie = False
                for sp_ in sp["_spines"]:
                    onsets = {}
                    for q, d, stp, alt, octv, grace, tp, tn in sp_["notes"]:
                        if not grace:
                            onsets.setdefault(q, []).append(tp or tn)
                    chord_tie = chord_tie or any(len(v) > 1 and any(v) for v in onsets.values())
                res.violation("N1-notes", "load", "kern spine (staff %d): loaded notes differ from what the notation denotes: missing %s, unexpected %s" % (stn, fmtn(miss), fmtn(extra)), site=("chord-tie:" if chord_tie else "") + _classify(miss, extra))
                return
            if len(sp["_spines"]) > 1:
                # spines are mapped to voices as encoded: the notes of one spine share a voice no other spine uses
                res.probe("kern_two_spines_on_one_staff")
                vmap = voices_by_note(score, stn)
                keycount = {}
                for sp_ in sp["_spines"]:
                    for q, d, stp, alt, octv, grace, tp, tn in sp_["notes"]:
                        keycount[(q, stp, alt, octv)] = keycount.get((q, stp, alt, octv), 0) + 1
                seen_v = {}
                for si, sp_ in enumerate(sp["_spines"]):
                    # (a pitch that sounds at one onset in both spines, or as grace and main note, cannot be attributed)
                    vs = set(vmap.get((q, stp, alt, octv)) for q, d, stp, alt, octv, grace, tp, tn in sp_["notes"] if not grace and not tp and keycount[(q, stp, alt, octv)] == 1)
                    vs.discard(None)
                    for v_ in vs:
                        if v_ in seen_v and seen_v[v_] != si:
                            res.violation("N3-voices", "load", "kern staff %d: the notes of two different spines were given the same voice %s" % (stn, v_), site="spines-share-voice")
                            return
                        seen_v[v_] = si
            part = info.get(stn)
            if part is not None and not getattr(res, "notes_only", False):
                ps = part_structure(part)
                if ps["measures"] != sorted(sp["measures"]):
                    res.violation("N2-structure", "load", "kern spine (staff %d): measures start at %s, barlines are encoded at %s" % (stn, list(map(str, ps["measures"])), list(map(str, sorted(sp["measures"])))), site="measures")
                    return
                if ps["timesigs"] != sorted(sp["timesigs"]):
                    res.violation("N2-structure", "load", "kern spine (staff %d): time signatures %s, declared %s" % (stn, [(str(a), b, c) for a, b, c in ps["timesigs"]], [(str(a), b, c) for a, b, c in sorted(sp["timesigs"])]), site="meter")
                    return
                if sp["key"] is not None and [k[1] for k in ps["keys"]][:1] != [sp["key"]]:
                    res.violation("N2-structure", "load", "kern spine (staff %d): key signature %s, declared %s fifths" % (stn, ps["keys"][:1], sp["key"]), site="key")
                    return
                if sp["clef"] is not None and (F(0), stn, sp["clef"][0], sp["clef"][1]) not in ps["clefs"]:
                    res.violation("N2-structure", "load", "kern spine (staff %d): clef %s declared, loaded clefs %s" % (stn, sp["clef"], [(str(a), b, c, d) for a, b, c, d in ps["clefs"]]), site="clef")
                    return
    else:
        for stf in exp["staves"]:
            want = sorted([(a, b, c, d, e, False) for a, b, c, d, e in stf["joined"]] + [(a, b, c, d, e, True) for a, b, c, d, e, g, v in stf["notes"] if g], key=repr)
            have = got.get(stf["n"], [])
            if want != have:
                miss = [x for x in want if x not in have][:3]
                extra = [x for x in have if x not in want][:3]
                res.violation("N1-notes", "load", "MEI staff %d: loaded notes differ from what the notation denotes: missing %s, unexpected %s" % (stf["n"], fmtn(miss), fmtn(extra)), site=_classify(miss, extra))
                return
            part = info.get(stf["n"])
            if part is not None and stf.get("def_id") and kn["route"] in ("direct", "load_score", "url") and str(part.id) != stf["def_id"]:
                # the notes of a staff belong to the part made from its staffDef
                res.violation("N2-structure", "load", "MEI staff %d (staffDef %s): its notes are in part %s" % (stf["n"], stf["def_id"], part.id), site="staff-to-part")
                return
            if part is not None and not getattr(res, "notes_only", False):
                if len(set(v for *_, g, v in stf["notes"])) > 1:
                    res.probe("mei_layers")
                ps = part_structure(part)
                if ps["measures"] != sorted(stf["measures"]):
                    res.violation("N2-structure", "load", "MEI staff %d: measures start at %s, encoded at %s" % (stf["n"], list(map(str, ps["measures"])), list(map(str, sorted(stf["measures"])))), site="measures")
                    return
                if [t[1:] for t in ps["timesigs"]][:1] != [stf["meter"]]:
                    res.violation("N2-structure", "load", "MEI staff %d: meter %s, declared %s" % (stf["n"], ps["timesigs"][:1], stf["meter"]), site="meter")
                    return
                if stf.get("keys"):
                    res.probe("mei_key_change_with_meter_change")
                    if [(a, b) for a, b in ps["keys"]] != stf["keys"]:
                        res.violation("N2-structure", "load", "MEI staff %d: key signatures %s, declared %s" % (stf["n"], [(str(a), b) for a, b in ps["keys"]], [(str(a), b) for a, b in stf["keys"]]), site="key-change")
                        return
                if len(stf["timesigs"]) > 1:
                    res.probe("mei_meter_change")
                    if ps["timesigs"] != sorted(stf["timesigs"]):
                        res.violation("N2-structure", "load", "MEI staff %d: time signatures %s, declared %s" % (stf["n"], [(str(a), b, c) for a, b, c in ps["timesigs"]], [(str(a), b, c) for a, b, c in sorted(stf["timesigs"])]), site="meter-change")
                        return
                if [k[1] for k in ps["keys"]][:1] != [stf["key"]]:
                    res.violation("N2-structure", "load", "MEI staff %d: key signature %s, declared %s" % (stf["n"], ps["keys"][:1], stf["key"]), site="key")
                    return
                if not any(c[2:] == stf["clef"] for c in ps["clefs"]):
                    res.violation("N2-structure", "load", "MEI staff %d: clef %s declared, loaded clefs %s" % (stf["n"], stf["clef"], [(str(a), b, c, d) for a, b, c, d in ps["clefs"]]), site="clef")
                    return


def _classify(miss, extra):
    if miss and extra and len(miss) == len(extra):
        if all(m[2:5] == e[2:5] for m, e in zip(sorted(miss, key=repr), sorted(extra, key=repr))):
            return "timing"
        if all(m[:2] == e[:2] for m, e in zip(sorted(miss, key=repr), sorted(extra, key=repr))):
            return "pitch"
    if miss and not extra:
        return "missing"
    if extra and not miss:
        return "extra"
    return "notes"


def run_rt(res, fs, asc, kn, fmt, path, faults, shape):
    """direction 2: export with partitura, load with partitura"""
    import partitura as pt
    import partitura.score as S
    from partitura.io.exportkern import save_kern
    from partitura.io.exportmei import save_mei

    score = build.build_score(asc)
    if not any(n["kind"] == "note" for p in asc["parts"] for n in p["notes"]):
        res.log.add("world", "skip", "no pitched note")
        return
    n_before = len(res.violations)
    try:
        _run_rt(res, fs, asc, kn, fmt, path, faults, shape, score)
    finally:
        if kn.get("rich", True):
            for v in res.violations[n_before:]:
                if v["oracle"].startswith("X"):
                    v["site"] = "rich:%s:%s" % (fmt, export_reason(asc, fmt, v))
                    v["oracle"] = "X-export-roundtrip"


def tiny_compound(k):
    """a boundary score: compound meter whose beat (an eighth) is a fraction of one division - dotted halves only,
    one division per quarter - with a silent measure in the middle (a measure rest)"""
    beats = k.choice((6, 6, 9, 3, 12))
    q = k.choice((1, 1, 3))
    L = beats * q // 2 if (beats * q) % 2 == 0 else None
    if L is None:
        beats, q, L = 6, 1, 3
    sym = {6: {"type": "half", "dots": 1}, 12: {"type": "whole", "dots": 1}}.get(beats)
    nm = 3
    notes = []
    for m in (0, 2):
        if sym is not None:
            notes.append({"id": "p1n%d" % (m + 1), "kind": "note", "t": m * L, "e": (m + 1) * L, "voice": 1, "staff": 1, "sym": dict(sym), "m": m, "g": None, "step": "CDE"[m], "alter": None, "octave": 4})
        else:
            # 9/8 and 3/8: dotted quarters (3/2 quarters each) need two divisions per quarter
            pass
    if sym is None:
        beats, q, L, sym = 6, q if q != 3 else 1, 3 * (q if q != 3 else 1), {"type": "half", "dots": 1}
        notes = [{"id": "p1n%d" % (m + 1), "kind": "note", "t": m * L, "e": (m + 1) * L, "voice": 1, "staff": 1, "sym": dict(sym), "m": m, "g": None, "step": "CDE"[m], "alter": None, "octave": 4} for m in (0, 2)]
    part = {
        "id": "P1", "name": "Part P1", "abbr": None, "qdivs": [[0, q]], "nstaves": 1, "end": nm * L,
        "measures": [{"s": m * L, "e": (m + 1) * L, "number": m + 1, "name": str(m + 1)} for m in range(nm)],
        "timesigs": [{"t": 0, "beats": beats, "beat_type": 8}], "keysigs": [{"t": 0, "fifths": 0, "mode": None}],
        "clefs": [{"t": 0, "staff": 1, "sign": "G", "line": 2, "oct": 0}],
        "notes": notes, "slurs": [], "tuplets": [], "dirs": [], "tempos": [], "repeats": [], "endings": [], "nav": [], "fermatas": [],
    }
    return {"id": None, "parts": [part], "groups": None}


def tiny_breve(k):
    """a boundary score in a meter of half notes whose measures hold a breve: plain (4/2), dotted (6/2), double-dotted (7/2),
    or a long (8/2)"""
    beats, sym = k.choice(((4, {"type": "breve", "dots": 0}), (6, {"type": "breve", "dots": 1}), (7, {"type": "breve", "dots": 2}), (7, {"type": "breve", "dots": 2}), (8, {"type": "long", "dots": 0})))
    q = k.choice((1, 2, 4))
    L = 2 * beats * q
    nm = 3
    kinds = [k.choice(("note", "note", "rest")) for _ in range(nm)]
    notes = [{"id": "p1n%d" % (m + 1), "kind": kinds[m], "t": m * L, "e": (m + 1) * L, "voice": 1, "staff": 1, "sym": dict(sym), "m": m, "g": None, "step": "CDE"[m] if kinds[m] == "note" else None, "alter": None, "octave": 4 if kinds[m] == "note" else None} for m in range(nm)]
    part = {
        "id": "P1", "name": "Part P1", "abbr": None, "qdivs": [[0, q]], "nstaves": 1, "end": nm * L,
        "measures": [{"s": m * L, "e": (m + 1) * L, "number": m + 1, "name": str(m + 1)} for m in range(nm)],
        "timesigs": [{"t": 0, "beats": beats, "beat_type": 2}], "keysigs": [{"t": 0, "fifths": 0, "mode": None}],
        "clefs": [{"t": 0, "staff": 1, "sign": "G", "line": 2, "oct": 0}],
        "notes": notes, "slurs": [], "tuplets": [], "dirs": [], "tempos": [], "repeats": [], "endings": [], "nav": [], "fermatas": [],
    }
    return {"id": None, "parts": [part], "groups": None}


def tiny_big_chords(k):
    """a boundary score: chords of 8 to 10 notes with accidentals (one token of a kern line is then longer than 32
    characters, an MEI chord has that many children)"""
    q = 2
    L = 4 * q
    notes = []
    steps = "CDEFGAB"
    for m in range(2):
        for b in range(2):
            n = k.choice((8, 9, 10))
            for c in range(n):
                notes.append({"id": "p1n%d" % (len(notes) + 1), "kind": "note", "t": m * L + b * 2 * q, "e": m * L + (b + 1) * 2 * q, "voice": 1, "staff": 1, "sym": {"type": "half", "dots": 0}, "m": m, "g": None, "step": steps[c % 7], "alter": (1 if (c + b) % 2 else -1) if steps[c % 7] not in "" else None, "octave": 2 + c // 7 + 2 * (c % 2)})
    part = {
        "id": "P1", "name": "Part P1", "abbr": None, "qdivs": [[0, q]], "nstaves": 1, "end": 2 * L,
        "measures": [{"s": m * L, "e": (m + 1) * L, "number": m + 1, "name": str(m + 1)} for m in range(2)],
        "timesigs": [{"t": 0, "beats": 4, "beat_type": 4}], "keysigs": [{"t": 0, "fifths": 0, "mode": None}],
        "clefs": [{"t": 0, "staff": 1, "sign": "G", "line": 2, "oct": 0}],
        "notes": notes, "slurs": [], "tuplets": [], "dirs": [], "tempos": [], "repeats": [], "endings": [], "nav": [], "fermatas": [],
    }
    return {"id": None, "parts": [part], "groups": None}


def tiny_many_staves(k):
    """a boundary score: 10 to 14 one-staff parts (an orchestral score: staff numbers with two digits)"""
    n = k.choice((10, 11, 12, 14))
    q = 1
    L = 4
    parts = []
    for pi in range(n):
        pid = "P%d" % (pi + 1)
        notes = [{"id": "%sn%d" % (pid.lower(), m + 1), "kind": "note", "t": m * L, "e": (m + 1) * L, "voice": 1, "staff": 1, "sym": {"type": "whole", "dots": 0}, "m": m, "g": None, "step": "CDEFGAB"[(pi + m) % 7], "alter": None, "octave": 2 + pi % 5} for m in range(2)]
        parts.append({
            "id": pid, "name": "Part " + pid, "abbr": None, "qdivs": [[0, q]], "nstaves": 1, "end": 2 * L,
            "measures": [{"s": m * L, "e": (m + 1) * L, "number": m + 1, "name": str(m + 1)} for m in range(2)],
            "timesigs": [{"t": 0, "beats": 4, "beat_type": 4}], "keysigs": [{"t": 0, "fifths": 0, "mode": None}],
            "clefs": [{"t": 0, "staff": 1, "sign": "G", "line": 2, "oct": 0}],
            "notes": notes, "slurs": [], "tuplets": [], "dirs": [], "tempos": [], "repeats": [], "endings": [], "nav": [], "fermatas": [],
        })
    return {"id": None, "parts": parts, "groups": None}


def strip_unsupported(asc, fmt):
    for p in asc["parts"]:
        for n in p["notes"]:
            for key in ("tie_next", "tie_prev", "grace_next", "grace_prev"):
                n.pop(key, None)
        p["notes"] = [n for n in p["notes"] if n["kind"] != "grace"]
        ids = set(n["id"] for n in p["notes"])
        p["slurs"] = [s for s in p.get("slurs", []) if s["start"] in ids and s["end"] in ids]
        p["tuplets"] = [t for t in p.get("tuplets", []) if t["start"] in ids and t["end"] in ids]
        # every tuplet group gets its bracket
        groups = {}
        for n in p["notes"]:
            if n.get("g") is not None:
                groups.setdefault(tuple(n["g"]), []).append(n)
        starts = set(t["start"] for t in p["tuplets"])
        for key, g in sorted(groups.items()):
            g = sorted(g, key=lambda n: n["t"])
            firsts = [n for n in g if n["t"] == g[0]["t"]]
            lasts = [n for n in g if n["t"] == g[-1]["t"]]
            if not any(n["id"] in starts for n in firsts):
                p["tuplets"].append({"start": firsts[0]["id"], "end": lasts[0]["id"], "actual": g[0]["sym"]["actual_notes"], "normal": g[0]["sym"]["normal_notes"], "type": g[0]["sym"]["type"]})


def export_features(asc):
    f = set()
    for p in asc["parts"]:
        ns = p["notes"]
        if any(n["kind"] == "grace" for n in ns):
            f.add("grace")
        if any(n.get("tie_next") for n in ns):
            f.add("tie")
        groups = {}
        for n in ns:
            if n.get("g") is not None:
                groups.setdefault(tuple(n["g"]), []).append(n)
        starts = set(t["start"] for t in p.get("tuplets", []))
        for key, g in groups.items():
            f.add("tuplet")
            t0 = min(n["t"] for n in g)
            if not any(n["id"] in starts for n in g if n["t"] == t0):
                f.add("unbracketed-tuplet")
        by_onset = {}
        for n in ns:
            if n["kind"] == "note":
                by_onset.setdefault((n["t"], n["voice"], n["staff"]), []).append(n)
        if any(len(v) > 1 and (v[0].get("sym") or {}).get("dots") for v in by_onset.values()):
            f.add("dotted-chord")
        if any(len(set(n["e"] for n in v)) > 1 for v in by_onset.values()):
            f.add("unequal-chord")
        # a voice that does not tile the measures it sounds in (gaps are not notated by the writers)
        for key in set((n["voice"], n["staff"]) for n in ns if n["kind"] != "grace"):
            vn = sorted((n for n in ns if (n["voice"], n["staff"]) == key and n["kind"] != "grace"), key=lambda n: (n["t"], n["e"]))
            spans = sorted(set((n["t"], n["e"]) for n in vn))
            pos = p["measures"][0]["s"]
            for a, b in spans:
                if a > pos:
                    f.add("gappy-voice")
                pos = max(pos, b)
            if pos < p["measures"][-1]["e"]:
                f.add("gappy-voice")
    return f


def export_reason(asc, fmt, v):
    """which of the writers' known limitations a failed export round trip of a rich part falls under (the first that
    applies); anything else is 'other' and is NOT covered by a known finding"""
    if v["oracle"] == "X0-export-raised":
        return "raised:" + str(v.get("site"))
    f = export_features(asc)
    order = ("grace", "tuplet", "tie", "gappy-voice") if fmt == "kern" else ("tie", "grace", "unbracketed-tuplet", "gappy-voice", "tuplet")
    for r in order:
        if r in f:
            return r
    return "other"


def _run_rt(res, fs, asc, kn, fmt, path, faults, shape, score):
    import partitura as pt
    import partitura.score as S
    from partitura.io.exportkern import save_kern
    from partitura.io.exportmei import save_mei

    snapper = FP.Snapshotter()
    snap0 = snapper.snapshot(score)
    want = []
    for part in score.parts:
        for n in part.iter_all(S.Note, include_subclasses=False):
            if n.tie_prev is not None:
                continue
            q = int(part.quarter_duration_map(n.start.t))
            want.append((F(n.start.t, q), F(n.duration_tied, q), n.midi_pitch, n.staff))
    want.sort()
    fs.expect_transfer(4000)
    fs.faults = faults
    fired_before = dict(fs.fired)
    try:
        if fmt == "kern":
            with_timeout(30, save_kern, score, path)
        else:
            with_timeout(30, save_mei, score, path)
        outcome = "ack"
    except Timeout:
        res.violation("L1-termination", "save", "save_%s did not terminate within the budget" % fmt, site=fmt)
        return
    except SimCrash:
        outcome = "crashed"
    except Exception as e:
        outcome = "raised:" + type(e).__name__
        err = e
    faulted = fs.fired != fired_before
    if faulted:
        res.probe("write_fault")
    res.log.add("client", "save", {"outcome": outcome, "faulted": faulted})
    # (save_kern / save_mei are not among the operations C20 lists as read-only, and C19 does not
    # state non-mutation: whether the exporters touch their argument is recorded, not judged)
    if snapper.snapshot(score) != snap0:
        res.count("exporter_changed_argument:" + fmt)
    if outcome != "ack":
        if not faulted:
            import traceback

            tb = traceback.extract_tb(err.__traceback__)
            site = [f for f in tb if "/partitura/" in f.filename]
            res.violation("X0-export-raised", "save", "save_%s raised %s: %s" % (fmt, type(err).__name__, err), site=site[-1].name if site else type(err).__name__)
            return
        # failed/crashed save: retry fault-free
        fs.faults = []
        try:
            (save_kern if fmt == "kern" else save_mei)(score, path)
        except Exception as e:
            res.violation("D1-retry", "save", "fault-free retry after %s raised %s: %s" % (outcome, type(e).__name__, e), site=fmt)
            return
    fs.faults = []
    # the written text uses the vocabulary of its format: what another reader needs to give every element a length
    import re as _re

    try:
        text_ = fs.get(path).decode("utf-8", "replace")
    except Exception:
        res.violation("D1-durable", "save", "save_%s returned normally (%s) but there is no file at the path" % (fmt, "after an injected fault" if faulted else "no fault"), site=fmt + ":no-file")
        return
    if fmt == "mei":
        odd = sorted(set(v for v in _re.findall(r'\sdur="([^"]*)"', text_) if v not in ("long", "breve", "1", "2", "4", "8", "16", "32", "64", "128", "256", "512", "1024", "2048")))
        if odd:
            res.violation("X3-vocabulary", "save", "save_mei wrote dur=%s, which is not a duration value of MEI" % odd, site="mei:dur")
            return
    else:
        odd = []
        for line in text_.splitlines():
            if line[:1] in ("*", "!", "=") or not line.strip():
                continue
            for tok in _re.split(r"[\t ]", line):
                if tok in (".", "") or "q" in tok.lower():
                    continue
                if not _re.search(r"[0-9]", tok):
                    odd.append(tok)
        if odd:
            res.violation("X3-vocabulary", "save", "save_kern wrote note tokens without a duration: %s" % odd[:3], site="kern:recip")
            return
    try:
        loaded = with_timeout(30, load_any, fs, path, kn["route"], fmt, res)
    except Timeout:
        res.violation("L1-termination", "load", "loading a file written by save_%s did not terminate" % fmt, site=fmt)
        return
    except Exception as e:
        import traceback

        tb = traceback.extract_tb(e.__traceback__)
        site = [f for f in tb if "/partitura/" in f.filename]
        res.violation("X1-reload-raised", "load", "a file written by save_%s could not be loaded: %s: %s" % (fmt, type(e).__name__, e), site=site[-1].name if site else type(e).__name__)
        return
    have = []
    for part in loaded.parts:
        for n in part.iter_all(S.Note, include_subclasses=False):
            if n.tie_prev is not None:
                continue
            q = int(part.quarter_duration_map(n.start.t))
            have.append((F(n.start.t, q), F(n.duration_tied, q), n.midi_pitch, n.staff))
    have.sort()
    res.probe("export_roundtrip_checked")
    if kn.get("rich", True):
        f = export_features(asc)
        known = ("grace", "tuplet", "tie", "gappy-voice") if fmt == "kern" else ("tie", "grace", "unbracketed-tuplet")
        if not (f & set(known)):
            # a rich part outside every known limitation of the writer: judged strictly
            res.probe("rich_export_strict_" + fmt)
            if "tuplet" in f:
                res.probe("rich_export_strict_tuplets")
    if have != want:
        miss = [x for x in want if x not in have][:3]
        extra = [x for x in have if x not in want][:3]
        site = "notes"
        if sorted(x[:3] for x in have) == sorted(x[:3] for x in want):
            site = "staff"
        elif sorted((x[0], x[2]) for x in have) == sorted((x[0], x[2]) for x in want):
            site = "duration"
        res.violation("X2-export-roundtrip", "load", "save_%s -> load: notes (onset, duration, pitch, staff) differ: missing %s, unexpected %s" % (fmt, [(str(a), str(b), c, d) for a, b, c, d in miss], [(str(a), str(b), c, d) for a, b, c, d in extra]), site=fmt + ":" + site)


def shrink_spec(case):
    from checks import c03

    _, simp = c03.shrink_spec({"workload": case["workload"], "ops": [], "faults": []})

    def wrap(c):
        for d in simp[0]({"workload": c["workload"], "ops": [], "faults": []}):
            e = copy.deepcopy(c)
            e["workload"] = d["workload"]
            yield e

    return [("faults",)], [wrap]


def case_size(case):
    return {"faults": len(case["faults"]), "parts": len(case["workload"]["parts"]), "notes": sum(len(p["notes"]) for p in case["workload"]["parts"])}
