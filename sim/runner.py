"""Batch runner, worker loop, replay, known findings, evidence.

Exit codes: 0 property held on everything explored (KNOWN-FINDING lines allowed)
            1 VIOLATION property=<id> replay=<path>
            2 harness error / hang / determinism self-test failure (never a
              VIOLATION line)
"""
import argparse
import collections
import copy
import importlib
import json
import os
import subprocess
import sys
import time
import traceback

VERIF = os.path.dirname(os.path.dirname(os.path.abspath(__file__)))
PY = "/venv/bin/python"
GUARD = "CPJKU_PARTITURA_VERIF"
HASHSEEDS = (0, 1, 7, 1984)  # run i executes under HASHSEEDS[i % 4]
SHM = "/dev/shm"

CHECK_IDS = ("C01", "C03", "C04", "C06", "C08", "C09", "C14", "C19", "C20")


def load_check(cid):
    return importlib.import_module("checks." + cid.lower())


# ----------------------------------------------------------------------------
# known findings


def load_known():
    p = os.path.join(VERIF, "known_findings.json")
    if not os.path.exists(p):
        return {"findings": [], "fixed": []}
    with open(p) as f:
        return json.load(f)


def match_known(viol, known):
    """A finding matches a violation when every key of its `match` dict equals
    the violation's field (or, for keys ending in _re, regex-searches it)."""
    import re

    for k in known.get("findings", []):
        if k.get("property") != viol.get("property"):
            continue
        ok = True
        for key, want in k.get("match", {}).items():
            if key.endswith("_re"):
                have = str(viol.get(key[:-3], ""))
                if not re.search(want, have):
                    ok = False
                    break
            else:
                if viol.get(key) != want:
                    ok = False
                    break
        if ok:
            return k
    return None


def vclass(v):
    return (v.get("oracle"), v.get("op"), v.get("site"))


# ----------------------------------------------------------------------------
# environment of a worker / a replay


def worker_env(hashseed):
    env = dict(os.environ)
    env["PYTHONHASHSEED"] = str(hashseed)
    env[GUARD] = "1"
    env["LC_ALL"] = "C.UTF-8"
    env["LANG"] = "C.UTF-8"
    env["PYTHONDONTWRITEBYTECODE"] = "1"
    env["PYTHONWARNINGS"] = "ignore"
    env["OMP_NUM_THREADS"] = "1"
    env["OPENBLAS_NUM_THREADS"] = "1"
    env["MKL_NUM_THREADS"] = "1"
    env.pop("PYTHONPATH", None)
    # development override only (used by tools/try_mutant.sh to test a seeded change in a scratch worktree while
    # /repo is in use by a background run); the registered commands never set it and import from /repo
    alt = os.environ.get("VERIF_REPO")
    if alt:
        env["PYTHONPATH"] = alt
    return env


def prepare_process():
    """Fix process-level inputs at worker start (see DESIGN 2.1)."""
    import warnings

    warnings.simplefilter("ignore")
    os.chdir(VERIF)
    sys.setrecursionlimit(1000)
    if VERIF not in sys.path:
        sys.path.insert(0, VERIF)
    # fixed import order => fixed object.__subclasses__() order
    import partitura  # noqa
    import partitura.score  # noqa
    import partitura.performance  # noqa
    import partitura.io.importmusicxml, partitura.io.exportmusicxml  # noqa
    import partitura.io.importmidi, partitura.io.exportmidi  # noqa
    import partitura.io.importmatch, partitura.io.exportmatch  # noqa
    import partitura.io.importmei, partitura.io.exportmei  # noqa
    import partitura.io.importkern, partitura.io.exportkern  # noqa
    import partitura.musicanalysis  # noqa


def repo_tree_id():
    repo = os.environ.get("VERIF_REPO") or "/repo"
    try:
        head = subprocess.run(["git", "-C", repo, "rev-parse", "HEAD"], capture_output=True, text=True).stdout.strip()
        dirty = subprocess.run(["git", "-C", repo, "status", "--porcelain", "--untracked-files=no"], capture_output=True, text=True).stdout.strip()
        return head + ("+dirty" if dirty else "")
    except Exception:
        return "unknown"


# ----------------------------------------------------------------------------
# worker


def case_for(chk, verif_seed, index, tier):
    from sim import rng

    seed = rng.run_seed(verif_seed, chk.ID, index)
    cfgs = getattr(chk, "CONFIGS", ("default",))
    cfg = cfgs[(index // len(HASHSEEDS)) % len(cfgs)]
    case = chk.generate(seed, tier, cfg)
    case["_meta"] = {"index": index, "seed": seed, "cfg": cfg, "hashseed": HASHSEEDS[index % len(HASHSEEDS)], "property": chk.ID}
    return case


class Flaky(Exception):
    pass


def shrink_violation(chk, case, viol, first_result=None):
    from sim import shrink

    target = vclass(viol)
    # minimisation is bounded in executions (SHRINK_BUDGET) and in wall time: a large world (a thousand-bar movement)
    # takes seconds per execution, and a replay file that is less small is better than none
    t_end = time.time() + float(os.environ.get("VERIF_SHRINK_WALL", getattr(chk, "SHRINK_WALL", 150)))

    def still_fails(c):
        if time.time() > t_end:
            return False
        r = chk.execute(copy.deepcopy(c))  # execute must not see changes an earlier execution made to the case
        return any(vclass(v) == target for v in r.violations)

    list_paths, simplifiers = chk.shrink_spec(case)
    small, ntests = shrink.shrink_case(case, still_fails, list_paths, simplifiers, max_tests=getattr(chk, "SHRINK_BUDGET", 300))
    r = chk.execute(copy.deepcopy(small), keep_log=True)
    vs = [v for v in r.violations if vclass(v) == target]
    if not vs:  # fall back to the unshrunk case
        small = case
        r = chk.execute(copy.deepcopy(small), keep_log=True)
        vs = [v for v in r.violations if vclass(v) == target]
    tries = 0
    while not vs and tries < 5:
        tries += 1
        r = chk.execute(copy.deepcopy(small), keep_log=True)
        vs = [v for v in r.violations if vclass(v) == target]
    if not vs:
        if first_result is None:
            raise Flaky("violation %s found at index %s did not recur when the same case was executed again: a source of nondeterminism is not owned by the simulator (library or harness)" % (list(target), case.get("_meta", {}).get("index")))
        # The violation was observed once and does not recur: on the unchanged tree this cannot happen (determinism gate),
        # so the code under test has become nondeterministic (e.g. a result that depends on object addresses).  It is
        # still a violation of the property in one real execution: report it, marked, with the unshrunk case.
        v = dict(viol)
        v["nondeterministic"] = True
        v["message"] = str(v.get("message")) + " [observed in 1 of %d executions of the same case: the code under test is nondeterministic]" % (tries + 2)
        return case, v, first_result, ntests
    return small, vs[0], r, ntests


def write_replay(chk, case, viol, result, ntests, orig_case):
    import hashlib

    blob = {
        "property": chk.ID,
        "tree": repo_tree_id(),
        "hashseed": case["_meta"]["hashseed"],
        "violation": viol,
        "digest": result.digest,
        "case": case,
        "shrink_tests": ntests,
        "original_sizes": chk.case_size(orig_case) if hasattr(chk, "case_size") else None,
        "minimised_sizes": chk.case_size(case) if hasattr(chk, "case_size") else None,
        "log": result.log_lines[-200:],
    }
    txt = json.dumps(blob, sort_keys=True, indent=1)
    name = "%s-%s.json" % (chk.ID, hashlib.sha256(txt.encode()).hexdigest()[:12])
    d = os.path.join(VERIF, "replays")
    os.makedirs(d, exist_ok=True)
    p = os.path.join(d, name)
    with open(p, "w") as f:
        f.write(txt)
    return p


def emit(obj):
    sys.stdout.write(json.dumps(obj, sort_keys=True) + "\n")
    sys.stdout.flush()


def worker_main(args):
    import faulthandler

    prepare_process()
    chk = load_check(args.prop)
    known = load_known()
    stats = collections.Counter()
    sigs = set()
    states = set()
    known_hits = collections.Counter()
    samples = []
    evaluations = 0
    events = 0
    nontrivial = 0
    digests = []
    deadline = args.deadline
    indices = range(args.start, args.stop, args.stride)
    if hasattr(chk, "worker_setup"):
        chk.worker_setup()
    # development aid (tools/try_mutant.sh): stop all workers once one of them has reported a violation
    stopfile = os.environ.get("VERIF_STOP_FILE")
    for index in indices:
        if deadline and time.time() > deadline:
            stats["wall_cap_hit"] += 1
            break
        if stopfile and os.path.exists(stopfile):
            break
        faulthandler.dump_traceback_later(args.run_timeout, exit=True)
        try:
            case = case_for(chk, args.seed, index, args.tier)
            res = chk.execute(copy.deepcopy(case), keep_log=(args.digests or len(samples) < args.samples))
        except Exception:
            faulthandler.cancel_dump_traceback_later()
            emit({"type": "harness-error", "index": index, "trace": traceback.format_exc()})
            return 2
        faulthandler.cancel_dump_traceback_later()
        evaluations += 1
        events += res.events
        stats.update(res.stats)
        if res.nontrivial:
            nontrivial += 1
            sigs.add(res.sig)
        states.update(res.states)
        if args.digests:
            digests.append([index, res.digest])
        if len(samples) < args.samples and res.log_lines:
            samples.append({"index": index, "cfg": case["_meta"]["cfg"], "hashseed": case["_meta"]["hashseed"], "log": res.log_lines[:60]})
        new = None
        for v in res.violations:
            v["property"] = chk.ID
            k = match_known(v, known)
            if k is not None:
                known_hits[k["id"]] += 1
            elif new is None:
                new = v
        if new is not None and not args.no_stop:
            faulthandler.dump_traceback_later(args.run_timeout * 20, exit=True)
            try:
                small, v, r, ntests = shrink_violation(chk, case, new, first_result=res)
                v["property"] = chk.ID
                path = write_replay(chk, small, v, r, ntests, case)
            except Exception:
                emit({"type": "harness-error", "index": index, "trace": traceback.format_exc()})
                return 2
            finally:
                faulthandler.cancel_dump_traceback_later()
            emit({"type": "violation", "index": index, "violation": v, "replay": path})
            if stopfile:
                open(stopfile, "w").close()
            break
    # distinct signatures / states go through /dev/shm as arrays of 64-bit ints
    import numpy as np

    tag = "%s-%d-%d" % (args.prop, os.getpid(), args.start)
    sigfile = os.path.join(SHM, "vp-sigs-%s.bin" % tag)
    np.array(sorted(sigs), dtype=np.uint64).tofile(sigfile)
    stfile = os.path.join(SHM, "vp-states-%s.bin" % tag)
    np.array(sorted(states), dtype=np.uint64).tofile(stfile)
    emit(
        {
            "type": "stats",
            "evaluations": evaluations,
            "events": events,
            "nontrivial": nontrivial,
            "stats": dict(stats),
            "known": dict(known_hits),
            "sigfile": sigfile,
            "statefile": stfile,
            "samples": samples,
            "digests": digests,
            "hashseed": int(os.environ.get("PYTHONHASHSEED", "-1")),
        }
    )
    return 0


# ----------------------------------------------------------------------------
# batch


def plan_shards(n_runs, workers):
    """Static sharding: run i has hash seed HASHSEEDS[i % 4]; group g gets
    `per` processes; process (g, k) runs i = g + 4*(k + per*j)."""
    nh = len(HASHSEEDS)
    per = max(1, workers // nh)
    shards = []
    for g in range(nh):
        for k in range(per):
            start = g + nh * k
            stride = nh * per
            if start < n_runs:
                shards.append((HASHSEEDS[g], start, n_runs, stride))
    return shards


def run_batch(prop, tier, seed, n_runs, wall, workers, samples=1, digests=False, no_stop=False, run_timeout=60, quiet=False):
    """Start one fresh interpreter per shard (plain Popen, own PYTHONHASHSEED),
    at most `workers` at a time; workers write JSON lines to files in /dev/shm
    which are read and removed here."""
    shards = plan_shards(n_runs, workers)
    deadline = time.time() + wall if wall else 0
    pending = list(shards)
    check_path = os.path.join(VERIF, "check")
    out = {"lines": [], "errors": [], "died": []}
    maxpar = max(1, workers)
    live = {}
    hard_deadline = (deadline + 900) if wall else 0
    tag = "%d-%d" % (os.getpid(), int(time.time() * 1000) % 100000000)

    def launch(sh, k):
        hs, start, stop, stride = sh
        cmd = [PY, check_path, "--worker", prop, "--tier", tier, "--seed", str(seed), "--start", str(start), "--stop", str(stop), "--stride", str(stride), "--deadline", str(deadline), "--samples", str(samples if start == 0 else 0), "--run-timeout", str(run_timeout)]
        if digests:
            cmd.append("--digests")
        if no_stop:
            cmd.append("--no-stop")
        fo = os.path.join(SHM, "vp-out-%s-%d.jsonl" % (tag, k))
        fe = os.path.join(SHM, "vp-err-%s-%d.txt" % (tag, k))
        with open(fo, "wb") as o, open(fe, "wb") as e:
            p = subprocess.Popen(cmd, stdout=o, stderr=e, env=worker_env(hs), cwd=VERIF)
        return p, fo, fe

    def collect(p, sh, fo, fe, why=None):
        try:
            with open(fo, "rb") as f:
                so = f.read().decode("utf-8", "replace")
            with open(fe, "rb") as f:
                se = f.read().decode("utf-8", "replace")
        finally:
            for x in (fo, fe):
                try:
                    os.unlink(x)
                except OSError:
                    pass
        for line in so.splitlines():
            line = line.strip()
            if not line.startswith("{"):
                continue
            try:
                out["lines"].append(json.loads(line))
            except ValueError:
                pass
        if why or p.returncode != 0:
            out["died"].append({"shard": list(sh), "rc": p.returncode, "why": why, "stderr": se[-3000:]})

    k = 0
    while pending or live:
        while pending and len(live) < maxpar:
            sh = pending.pop(0)
            p, fo, fe = launch(sh, k)
            live[k] = (p, sh, fo, fe)
            k += 1
        time.sleep(0.05)
        for key, (p, sh, fo, fe) in list(live.items()):
            if p.poll() is not None:
                del live[key]
                collect(p, sh, fo, fe)
            elif hard_deadline and time.time() > hard_deadline:
                p.kill()
                p.wait()
                del live[key]
                collect(p, sh, fo, fe, why="hard wall cap")
    return out


def aggregate(out):
    import numpy as np

    agg = {"evaluations": 0, "events": 0, "nontrivial": 0, "stats": collections.Counter(), "known": collections.Counter(), "samples": [], "violations": [], "harness": [], "digests": {}, "hashseeds": set()}
    sig_arrays, st_arrays = [], []
    for l in out["lines"]:
        t = l.get("type")
        if t == "stats":
            agg["evaluations"] += l["evaluations"]
            agg["events"] += l["events"]
            agg["nontrivial"] += l["nontrivial"]
            agg["stats"].update(l["stats"])
            agg["known"].update(l["known"])
            agg["samples"].extend(l["samples"])
            agg["hashseeds"].add(l["hashseed"])
            for i, d in l["digests"]:
                agg["digests"][i] = d
            for key, arrs in (("sigfile", sig_arrays), ("statefile", st_arrays)):
                f = l.get(key)
                if f and os.path.exists(f):
                    arrs.append(np.fromfile(f, dtype=np.uint64))
                    os.unlink(f)
        elif t == "violation":
            agg["violations"].append(l)
        elif t == "harness-error":
            agg["harness"].append(l)
    agg["distinct"] = int(len(np.unique(np.concatenate(sig_arrays)))) if sig_arrays else 0
    agg["states"] = int(len(np.unique(np.concatenate(st_arrays)))) if st_arrays else 0
    return agg


def write_evidence(chk, tier, seed, agg, wall_s, n_planned, extra=None):
    import jsonschema

    known = load_known()
    ev = {
        "property_id": chk.ID,
        "tier": tier,
        "seed": int(seed),
        "level": "exploration",
        "coverage": {
            "evaluations": int(agg["evaluations"]),
            "distinct_nontrivial": int(agg["distinct"]),
            "rule": chk.RULE,
            "samples": agg["samples"][:3] or [{"note": "no sample captured"}],
            "states": int(agg["states"]),
            "runs_planned": int(n_planned),
            "run_index_range": [0, int(n_planned)],
            "nontrivial_runs": int(agg["nontrivial"]),
            "logical_time_events": int(agg["events"]),
            "simulated_time_note": "partitura has no clock; logical time is the simulator's global event sequence number",
            "runs_per_hour": int(agg["evaluations"] / max(wall_s, 1e-6) * 3600),
            "counters": {k: int(v) for k, v in sorted(agg["stats"].items())},
            "fault_kinds_fired": {k[6:]: int(v) for k, v in sorted(agg["stats"].items()) if k.startswith("fault:")},
            "reach_probes": {k[6:]: int(v) for k, v in sorted(agg["stats"].items()) if k.startswith("probe:")},
            "hashseeds": sorted(agg["hashseeds"]),
            "known_findings_seen": {k: int(v) for k, v in sorted(agg["known"].items())},
            "components": chk.COMPONENTS,
            "tree": repo_tree_id(),
        },
        "assumptions": chk.ASSUMPTIONS,
        "wall_s": round(float(wall_s), 2),
        "violations": len(agg["violations"]),
    }
    if extra:
        ev["coverage"].update(extra)
    with open("/root/.vp/EVIDENCE.schema.json") as f:
        schema = json.load(f)
    jsonschema.validate(ev, schema)
    d = os.path.join(VERIF, "evidence")
    os.makedirs(d, exist_ok=True)
    with open(os.path.join(d, chk.ID + ".json"), "w") as f:
        json.dump(ev, f, indent=1, sort_keys=True)
    return ev


def determinism_gate(prop, tier, seed, n, workers_a=4, workers_b=8):
    """Run the first n indices twice in fresh interpreters with different
    worker counts (hence different process/shard layouts); compare digests."""
    a = aggregate(run_batch(prop, tier, seed, n, 0, workers_a, samples=0, digests=True, no_stop=True))
    b = aggregate(run_batch(prop, tier, seed, n, 0, workers_b, samples=0, digests=True, no_stop=True))
    diff = [i for i in sorted(set(a["digests"]) | set(b["digests"])) if a["digests"].get(i) != b["digests"].get(i)]
    return {"runs": n, "compared": len(a["digests"]), "diverged": diff[:20], "ok": not diff and len(a["digests"]) == n and len(b["digests"]) == n and not a["harness"] and not b["harness"]}


def check_main(args):
    chk = load_check(args.prop)
    tier = args.tier or os.environ.get("VERIF_TIER") or "quick"
    if tier not in ("quick", "thorough"):
        tier = "quick"
    seed = int(args.seed if args.seed is not None else os.environ.get("VERIF_SEED", "0") or 0)
    cfg = chk.TIERS[tier]
    n_runs = int(args.runs or cfg["runs"])
    wall = float(args.wall or cfg["wall"])
    workers = int(args.workers or os.environ.get("VERIF_WORKERS", "16"))
    print("VERIF_SEED=%d property=%s tier=%s runs=%d wall_cap=%ds workers=%d tree=%s" % (seed, chk.ID, tier, n_runs, wall, workers, repo_tree_id()))
    sys.stdout.flush()
    t0 = time.time()
    gate = None
    if not args.no_gate:
        gate = determinism_gate(chk.ID, tier, seed, cfg.get("gate", 24))
        print("determinism gate: %s" % json.dumps(gate))
        if not gate["ok"]:
            print("HARNESS-ERROR determinism self-test failed; not reporting on the property")
            return 2
    out = run_batch(chk.ID, tier, seed, n_runs, wall, workers, samples=3, run_timeout=cfg.get("run_timeout", 60))
    agg = aggregate(out)
    wall_s = time.time() - t0
    known = load_known()
    kmap = {k["id"]: k for k in known.get("findings", [])}
    for kid, cnt in sorted(agg["known"].items()):
        k = kmap.get(kid, {})
        print("KNOWN-FINDING: property=%s %s (id=%s, seen in %d runs)" % (chk.ID, k.get("what", kid), kid, cnt))
    rc = 0
    if agg["harness"] or out["died"]:
        for h in agg["harness"][:3]:
            print("HARNESS-ERROR index=%s\n%s" % (h.get("index"), h.get("trace")))
        for d in out["died"][:3]:
            print("HARNESS-ERROR worker died: %s" % json.dumps(d)[:3000])
        rc = 2
    if agg["evaluations"] == 0:
        print("HARNESS-ERROR no runs executed")
        rc = 2
    extra = {"determinism_gate": gate}
    if hasattr(chk, "evidence_extra"):
        extra.update(chk.evidence_extra(agg))
    try:
        if agg["evaluations"] > 0:
            ev = write_evidence(chk, tier, seed, agg, wall_s, n_runs, extra)
            zero = [k for k, v in ev["coverage"]["reach_probes"].items() if v == 0]
            missing = [p for p in getattr(chk, "PROBES", ()) if ("probe:" + p) not in agg["stats"]]
            if missing:
                print("WARNING reach probes never hit: %s" % ", ".join(missing))
    except Exception:
        print("HARNESS-ERROR evidence: %s" % traceback.format_exc())
        rc = 2
    print("runs=%d events=%d distinct_nontrivial=%d states=%d wall=%.1fs" % (agg["evaluations"], agg["events"], agg["distinct"], agg["states"], wall_s))
    if agg["violations"]:
        for v in agg["violations"][:5]:
            vv = v["violation"]
            print("violation oracle=%s op=%s site=%s: %s" % (vv.get("oracle"), vv.get("op"), vv.get("site"), str(vv.get("message"))[:500]))
            print("VIOLATION property=%s replay=%s" % (chk.ID, v["replay"]))
        return 1
    return rc


# ----------------------------------------------------------------------------
# replay


def replay_main(path):
    with open(path) as f:
        blob = json.load(f)
    hs = str(blob["hashseed"])
    if os.environ.get("PYTHONHASHSEED") != hs or os.environ.get(GUARD) != "1":
        env = worker_env(hs)
        return subprocess.call([PY, os.path.join(VERIF, "check"), "--replay", path], env=env, cwd=VERIF)
    prepare_process()
    chk = load_check(blob["property"])
    if hasattr(chk, "worker_setup"):
        chk.worker_setup()
    res = chk.execute(copy.deepcopy(blob["case"]), keep_log=True)
    want = vclass(blob["violation"])
    got = [v for v in res.violations if vclass(v) == want]
    if not got and blob["violation"].get("nondeterministic"):
        # recorded as occurring in only some executions of the case: try a few more times
        for _ in range(30):
            res = chk.execute(copy.deepcopy(blob["case"]), keep_log=True)
            got = [v for v in res.violations if vclass(v) == want]
            if got:
                break
    print("replay %s: tree=%s (recorded on %s)" % (path, repo_tree_id(), blob.get("tree")))
    if got and res.digest == blob["digest"]:
        print("reproduced exactly: digest=%s" % res.digest)
        print("violation oracle=%s op=%s site=%s: %s" % (got[0].get("oracle"), got[0].get("op"), got[0].get("site"), got[0].get("message")))
        print("VIOLATION property=%s replay=%s" % (blob["property"], path))
        return 1
    if got:
        print("violation reproduced but event-log digest differs (recorded %s, now %s): tree changed or harness nondeterminism" % (blob["digest"], res.digest))
        print("VIOLATION property=%s replay=%s" % (blob["property"], path))
        return 1
    print("NOT REPRODUCED: the recorded violation class %s does not occur on this tree (digest now %s); other violations: %s" % (list(want), res.digest, [list(vclass(v)) for v in res.violations]))
    return 0 if not res.violations else 3


# ----------------------------------------------------------------------------


def main(argv=None):
    ap = argparse.ArgumentParser(prog="check")
    ap.add_argument("prop", nargs="?")
    ap.add_argument("--tier")
    ap.add_argument("--seed", type=int)
    ap.add_argument("--runs", type=int)
    ap.add_argument("--wall", type=float)
    ap.add_argument("--workers", type=int)
    ap.add_argument("--no-gate", action="store_true")
    ap.add_argument("--replay")
    ap.add_argument("--selftest")
    ap.add_argument("--n", type=int, default=200)
    # worker
    ap.add_argument("--worker")
    ap.add_argument("--start", type=int, default=0)
    ap.add_argument("--stop", type=int, default=0)
    ap.add_argument("--stride", type=int, default=1)
    ap.add_argument("--deadline", type=float, default=0)
    ap.add_argument("--samples", type=int, default=0)
    ap.add_argument("--digests", action="store_true")
    ap.add_argument("--no-stop", action="store_true")
    ap.add_argument("--run-timeout", type=int, default=60)
    args = ap.parse_args(argv)
    if args.worker:
        args.prop = args.worker
        args.seed = args.seed or 0
        args.tier = args.tier or "quick"
        return worker_main(args)
    if args.replay:
        return replay_main(args.replay)
    if args.selftest:
        from sim import selftest

        return selftest.main(args)
    if not args.prop:
        ap.error("property id required")
    return check_main(args)
