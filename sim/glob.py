"""Process-global fingerprint (DESIGN 2.8): what 'leaves everything else alone'
means operationally."""
import builtins
import hashlib
import io
import locale
import random as _random
import tempfile as _tempfile
import os
import sys
import warnings

import numpy as np

_TABLES = (
    "MUSICAL_BEATS",
    "DURS",
    "SYM_DURS",
    "MAJOR_KEYS",
    "MINOR_KEYS",
    "INTERVAL_TO_SEMITONES",
    "INTERVALCLASSES",
    "LABEL_DURS",
    "MIDI_BASE_CLASS",
    "BASE_PC",
    "STEPS",
    "ALT_TO_INT",
    "INT_TO_ALT",
    "CLEF_TO_INT",
    "TIME_UNITS",
    "NOTE_NAME_PATT",
)


def _tables_hash():
    import partitura.utils.globals as GL

    h = hashlib.sha256()
    for name in _TABLES:
        v = getattr(GL, name, None)
        try:
            if isinstance(v, dict):
                r = repr(sorted((repr(k), repr(x)) for k, x in v.items()))
            elif isinstance(v, np.ndarray):
                r = repr(v.tolist())
            else:
                r = repr(v)
        except Exception:
            r = "?"
        h.update(name.encode())
        h.update(r.encode())
    return h.hexdigest()[:16]


def fingerprint():
    import partitura.directions as D

    return {
        "recursionlimit": sys.getrecursionlimit(),
        "cwd": os.getcwd(),
        "np_err": repr(sorted(np.geterr().items())),
        "np_print": repr(sorted((k, repr(v)) for k, v in np.get_printoptions().items())),
        "locale": repr(locale.getlocale()),
        "tables": _tables_hash(),
        "open": id(builtins.open),
        "io_open": id(io.open),
        "dir_parser": id(getattr(D, "DEFAULT_PARSER", None)),
        "warnings_filters": (len(warnings.filters), repr(warnings.filters[:3])),
        "environ": hashlib.sha256(repr(sorted(os.environ.items())).encode()).hexdigest()[:16],
        "sys_path": hashlib.sha256(repr(sys.path).encode()).hexdigest()[:16],
        "py_random": hashlib.sha256(repr(_random.getstate()).encode()).hexdigest()[:16],
        "np_random": hashlib.sha256(np.random.get_state()[1].tobytes()).hexdigest()[:16] + ":%d" % np.random.get_state()[2],
    }


def restore(fp):
    sys.setrecursionlimit(fp["recursionlimit"])
    try:
        os.chdir(fp["cwd"])
    except OSError:
        pass
