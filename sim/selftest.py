"""./check --selftest determinism [Cxx ...] [--n N]

Runs the first N run indices of each check twice in fresh interpreters under
three worker counts (1, 4, 16 -> different process/shard layouts) and once more
with a different PYTHONHASHSEED for the *runner* process itself, and compares
the event-log digests.  Exit 0 if all agree, 2 otherwise (never a VIOLATION)."""
import json
import os
import subprocess
import sys

from sim import runner


def main(args):
    what = args.selftest
    if what == "import":
        runner.prepare_process()
        import partitura

        print("ok", partitura.__file__)
        return 0
    props = [args.prop] if args.prop else list(runner.CHECK_IDS)
    n = min(args.n, 400)
    bad = 0
    if os.environ.get("VP_SELFTEST_INNER"):
        # inner mode: print digests of one batch as JSON
        agg = runner.aggregate(runner.run_batch(props[0], "quick", 0, n, 0, int(os.environ["VP_SELFTEST_INNER"]), samples=0, digests=True, no_stop=True))
        print("DIGESTS " + json.dumps({str(k): v for k, v in agg["digests"].items()}))
        return 0
    for p in props:
        ref = None
        for workers, outer_hs in ((1, "0"), (4, "0"), (16, "0"), (8, "12345")):
            env = dict(os.environ)
            env["VP_SELFTEST_INNER"] = str(workers)
            env["PYTHONHASHSEED"] = outer_hs
            out = subprocess.run([runner.PY, os.path.join(runner.VERIF, "check"), "--selftest", "determinism", p, "--n", str(n)], env=env, capture_output=True, text=True, cwd=runner.VERIF)
            line = [l for l in out.stdout.splitlines() if l.startswith("DIGESTS ")]
            if not line:
                print("%s workers=%d outer_hashseed=%s: no digests (stderr: %s)" % (p, workers, outer_hs, out.stderr[-300:]))
                bad += 1
                continue
            d = json.loads(line[0][8:])
            if len(d) != n:
                print("%s workers=%d: %d of %d runs produced a digest" % (p, workers, len(d), n))
                bad += 1
            if ref is None:
                ref = d
            else:
                diff = [k for k in sorted(set(ref) | set(d), key=int) if ref.get(k) != d.get(k)]
                if diff:
                    print("%s workers=%d outer_hashseed=%s: DIVERGED at run indices %s" % (p, workers, outer_hs, diff[:10]))
                    bad += 1
        print("%s: %d runs x 4 layouts compared: %s" % (p, n, "identical" if not bad else "see above"))
        sys.stdout.flush()
    return 2 if bad else 0
