"""Append-only event log; the run digest is the SHA-256 of its canonical
rendering.  Summaries must be address-free: use canon() for anything that may
contain sets, dicts or floats."""
import hashlib
import json
from fractions import Fraction

import numpy as np


def canon(x):
    """Canonical JSON-able rendering: sets sorted, dict keys sorted (json does
    that), numpy scalars/arrays to python, Fractions to 'n/d', objects by class
    name only (never repr with an address)."""
    if x is None or isinstance(x, (bool, int, str)):
        return x
    if isinstance(x, float):
        if x != x:
            return "nan"
        if x in (float("inf"), float("-inf")):
            return "inf" if x > 0 else "-inf"
        return x
    if isinstance(x, Fraction):
        return "%d/%d" % (x.numerator, x.denominator)
    if isinstance(x, (np.integer,)):
        return int(x)
    if isinstance(x, (np.floating,)):
        return canon(float(x))
    if isinstance(x, np.bool_):
        return bool(x)
    if isinstance(x, bytes):
        return "b:" + hashlib.sha256(x).hexdigest()[:16] + ":%d" % len(x)
    if isinstance(x, np.ndarray):
        if x.dtype.names:
            return {"dtype": [str(n) for n in x.dtype.names], "rows": [canon(list(r)) for r in x.tolist()]}
        return canon(x.tolist())
    if isinstance(x, (list, tuple)):
        return [canon(e) for e in x]
    if isinstance(x, (set, frozenset)):
        return sorted((canon(e) for e in x), key=lambda e: json.dumps(e, sort_keys=True))
    if isinstance(x, dict):
        return {str(k): canon(v) for k, v in x.items()}
    if isinstance(x, BaseException):
        return "exc:" + type(x).__name__
    if isinstance(x, type):
        return "cls:" + x.__name__
    return "obj:" + type(x).__name__


def dumps(x):
    return json.dumps(canon(x), sort_keys=True, separators=(",", ":"))


def digest_of(x):
    return hashlib.sha256(dumps(x).encode("utf-8")).hexdigest()


class EventLog(object):
    def __init__(self, keep=True):
        self.seq = 0
        self.keep = keep
        self.events = []
        self._h = hashlib.sha256()

    def add(self, task, kind, summary=None):
        line = dumps([self.seq, task, kind, summary])
        self._h.update(line.encode("utf-8"))
        self._h.update(b"\n")
        if self.keep:
            self.events.append(line)
        self.seq += 1

    def digest(self):
        return self._h.hexdigest()
