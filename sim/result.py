import collections

from sim import rng
from sim.log import EventLog


class Result(object):
    """Outcome of executing one case."""

    def __init__(self, keep_log=False):
        self.log = EventLog(keep=keep_log)
        self.violations = []
        self.stats = collections.Counter()
        self.states = set()
        self.sigparts = []
        self.nontrivial = False

    # -- recording helpers -------------------------------------------------
    def violation(self, oracle, op, message, site=None, **extra):
        v = {"oracle": oracle, "op": op, "site": site, "message": str(message)[:2000]}
        v.update(extra)
        # one violation per class per run is enough (keeps logs small)
        for w in self.violations:
            if (w["oracle"], w["op"], w["site"]) == (oracle, op, site):
                return
        self.violations.append(v)
        self.log.add("oracle", "violation", [oracle, op, site])

    def probe(self, name, n=1):
        self.stats["probe:" + name] += n

    def fault(self, kind, n=1):
        self.stats["fault:" + kind] += n

    def count(self, name, n=1):
        self.stats[name] += n

    def state(self, *parts):
        self.states.add(rng.H("state", *parts))

    def sigadd(self, *parts):
        self.sigparts.append(parts)

    # -- finalisation ------------------------------------------------------
    @property
    def digest(self):
        return self.log.digest()

    @property
    def events(self):
        return self.log.seq

    @property
    def log_lines(self):
        return self.log.events

    @property
    def sig(self):
        return rng.H("sig", tuple(self.sigparts))
