"""Seed derivation.  One integer (VERIF_SEED) decides everything: every run
seed and every per-dimension stream is a SHA-256 image of it.  Nothing here
reads a clock, the process id or the hash seed."""
import hashlib
import random

STREAMS = ("workload", "ops", "schedule", "faults", "order", "knobs")


def H(*parts):
    """64-bit hash of the parts (ints/strs), stable across processes."""
    h = hashlib.sha256()
    for p in parts:
        h.update(repr(p).encode("utf-8"))
        h.update(b"\x00")
    return int.from_bytes(h.digest()[:8], "big")


def run_seed(verif_seed, check_id, index):
    return H("run", int(verif_seed), check_id, int(index))


class Streams(object):
    """Independent PRNG streams per dimension, so that shrinking or changing
    one dimension never reshuffles another."""

    def __init__(self, seed):
        self.seed = seed
        self._s = {}

    def __getattr__(self, name):
        if name.startswith("_") or name == "seed":
            raise AttributeError(name)
        s = self._s.get(name)
        if s is None:
            s = self._s[name] = random.Random(H(self.seed, name))
        return s


def chance(rng, p):
    return rng.random() < p


def pick_weighted(rng, items):
    """items: list of (value, weight)"""
    tot = sum(w for _, w in items)
    x = rng.random() * tot
    acc = 0.0
    for v, w in items:
        acc += w
        if x < acc:
            return v
    return items[-1][0]
