"""Cooperative scheduler.  Clients are generators; every `yield` is a
pre-emption point.  Which runnable task proceeds is decided by a recorded list
of integers (the `schedule` dimension of a case), never by a PRNG at run time,
so a replay file is a pure list of decisions and shrinking the schedule cannot
disturb any other dimension.

A decision d with n tasks in the world means: prefer task (d % n) if it is
runnable, otherwise runnable[(d // n) % len(runnable)].  Decisions beyond the
end of the list are 0 (lowest task id first = run tasks to completion in
order), which is what schedule shrinking converges to."""


class StepBudgetExceeded(Exception):
    pass


def gen_schedule(rng, ntasks, length, policy):
    """Produce a decision list under one of three policies."""
    out = []
    if policy == "rr":
        for k in range(length):
            out.append(k % max(1, ntasks))
    elif policy == "uniform":
        for _ in range(length):
            out.append(rng.randrange(0, max(1, ntasks) * 8))
    else:  # "bursty": PCT-like, long runs of one preferred task with few change points
        k = 0
        while k < length:
            pref = rng.randrange(0, max(1, ntasks))
            run = rng.choice((1, 2, 3, 5, 8, 13, 21))
            fallback = rng.randrange(0, 8)
            for _ in range(run):
                out.append(pref + max(1, ntasks) * fallback)
                k += 1
    return out[:length]


class Scheduler(object):
    def __init__(self, tasks, decisions, log, max_steps=400):
        # tasks: list of (name, generator) ; order = task id
        self.names = [n for n, _ in tasks]
        self.gens = [g for _, g in tasks]
        self.alive = [True] * len(tasks)
        self.decisions = decisions
        self.used = 0
        self.log = log
        self.max_steps = max_steps
        self.switches = 0
        self.trace = []  # task ids in the order they ran
        self.errors = {}  # task id -> exception that escaped the task

    def run(self, after_step=None):
        n = len(self.gens)
        last = None
        steps = 0
        while True:
            runnable = [i for i in range(n) if self.alive[i]]
            if not runnable:
                break
            if steps >= self.max_steps:
                raise StepBudgetExceeded("scheduler step cap %d" % self.max_steps)
            d = self.decisions[self.used] if self.used < len(self.decisions) else 0
            self.used += 1
            pref = d % n
            if pref in runnable:
                tid = pref
            else:
                tid = runnable[(d // n) % len(runnable)]
            if last is not None and tid != last:
                self.switches += 1
            last = tid
            self.trace.append(tid)
            steps += 1
            try:
                next(self.gens[tid])
            except StopIteration:
                self.alive[tid] = False
            except Exception as e:  # task died; recorded, world goes on
                self.alive[tid] = False
                self.errors[tid] = e
                self.log.add(self.names[tid], "task-error", type(e).__name__)
            if after_step is not None:
                after_step(tid)
        return steps
