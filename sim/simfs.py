"""SimFS - the in-memory file system the library sees (DESIGN 2.4).

Mounted at the virtual prefix /simfs/.  Interposition points: builtins.open,
io.open, os.path.exists/isfile, lxml.etree.parse, numpy's DataSource opener
table, tempfile.NamedTemporaryFile, urllib.request.urlopen.  Paths outside the
prefix fall through to the real functions.

Handles are SimRaw(io.RawIOBase) objects wrapped in the REAL CPython
BufferedWriter/BufferedReader/TextIOWrapper, so buffering, partial flush on
error and error-on-close behave as in production.  Durability model: process
crash - bytes accepted by a raw write are durable, bytes in a Python-level
buffer die with the process."""
import builtins
import errno as _errno
import io
import os
import os.path

PREFIX = "/simfs/"


class SimCrash(BaseException):
    """Process crash of the client that is writing (not an Exception on
    purpose: library `except Exception` handlers must not swallow it)."""


class Fault(object):
    """at: fires at the first matching raw operation whose per-path index is >= at.  frac (optional, write/read
    faults): instead fires at the first matching raw operation whose index *since the faults were armed* is
    >= frac * expected number of raw operations (SimFS.expected_ops), i.e. anywhere inside the transfer, also
    in its last bytes."""

    __slots__ = ("kind", "path", "at", "errno", "fired", "n", "frac")

    def __init__(self, kind, path="*", at=0, errno=28, n=1, frac=None):
        self.kind, self.path, self.at, self.errno, self.n = kind, path, at, errno, n
        self.frac = frac
        self.fired = 0

    def matches(self, path):
        return self.path == "*" or self.path == path or (self.path.startswith("*") and path.endswith(self.path[1:]))

    def to_json(self):
        return {"kind": self.kind, "path": self.path, "at": self.at, "errno": self.errno}


class SimRaw(io.RawIOBase):
    def __init__(self, fs, path, mode):
        super().__init__()
        self.fs, self.path, self.mode = fs, path, mode
        self.pos = 0
        self.dead = False
        if "w" in mode:
            fs.files[path] = bytearray()
        elif "a" in mode:
            fs.files.setdefault(path, bytearray())
            self.pos = len(fs.files[path])
        self.name = path

    def readable(self):
        return "r" in self.mode or "+" in self.mode

    def writable(self):
        return "w" in self.mode or "a" in self.mode or "+" in self.mode

    def seekable(self):
        return True

    def seek(self, off, whence=0):
        n = len(self.fs.files.get(self.path, b""))
        if whence == 0:
            self.pos = off
        elif whence == 1:
            self.pos += off
        else:
            self.pos = n + off
        self.pos = max(0, self.pos)
        return self.pos

    def tell(self):
        return self.pos

    def readinto(self, b):
        fs = self.fs
        k = fs.bump(self.path, "read")
        f = fs.fault_for(self.path, "F6", k)
        if f is not None:
            fs.fire(f)
            raise OSError(f.errno, "simfs: injected read error", self.path)
        data = fs.files.get(self.path)
        if data is None:
            raise OSError(_errno.ENOENT, "simfs: file vanished", self.path)
        n = min(len(b), max(0, len(data) - self.pos))
        if fs.short_reads and n > 0:
            lim = fs.short_reads[k % len(fs.short_reads)]
            if lim < n:
                n = lim
                fs.fired["F7"] = fs.fired.get("F7", 0) + 1
        b[:n] = data[self.pos : self.pos + n]
        self.pos += n
        return n

    def write(self, b):
        fs = self.fs
        if self.dead:
            raise SimCrash("write on a handle of a crashed client")
        k = fs.bump(self.path, "write")
        data = fs.files.setdefault(self.path, bytearray())
        f = fs.fault_for(self.path, "F4", k)
        if f is not None:
            fs.fire(f)
            self.dead = True
            fs.inflight(self.path, len(data))
            raise SimCrash("crash at raw write %d of %s" % (k, self.path))
        f = fs.fault_for(self.path, "F2", k)
        if f is not None:
            fs.fire(f)
            fs.inflight(self.path, len(data))
            raise OSError(f.errno, "simfs: injected write error", self.path)
        mv = bytes(b)
        n = len(mv)
        if fs.chunk and n > fs.chunk:
            n = fs.chunk
        if self.pos > len(data):
            data.extend(b"\x00" * (self.pos - len(data)))
        data[self.pos : self.pos + n] = mv[:n]
        self.pos += n
        fs.bytes_written += n
        return n

    def truncate(self, size=None):
        if size is None:
            size = self.pos
        data = self.fs.files.setdefault(self.path, bytearray())
        del data[size:]
        return size

    def close(self):
        if self.closed:
            return
        fs = self.fs
        try:
            if self.writable() and not self.dead:
                k = fs.bump(self.path, "close")
                f = fs.fault_for(self.path, "F3", k)
                if f is not None:
                    fs.fire(f)
                    raise OSError(f.errno, "simfs: injected error at close", self.path)
        finally:
            super().close()


class SimFS(object):
    def __init__(self, faults=(), chunk=0, short_reads=None):
        self.files = {}
        self.expected_ops = {}  # fault kind -> expected number of raw operations of one transfer (for Fault.frac)
        self.epoch = {}
        self.faults = list(faults)
        self.chunk = chunk
        self.short_reads = short_reads  # list of per-read byte limits (cycled) or None
        self.counters = {}
        self.fired = {}
        self.inflight_points = []
        self.bytes_written = 0
        self._saved = None
        self.urls = {}
        self.url_short_reads = None  # per-read byte limits of served responses (cycled) or None
        self.tmp_counter = 0
        self.opened = []

    # --- bookkeeping
    def bump(self, path, op):
        k = self.counters.get((path, op), 0)
        self.counters[(path, op)] = k + 1
        return k

    @property
    def faults(self):
        return self._faults

    @faults.setter
    def faults(self, value):
        # arming: positions given as a fraction count raw operations from here
        self._faults = list(value)
        self.epoch = {}

    def expect_transfer(self, nbytes, bufsize=-1):
        """tell the simulator how large one transfer of the workload is, so that Fault.frac can be placed inside it"""
        buf = bufsize if bufsize and bufsize > 0 else 8192
        step = min(x for x in (self.chunk or buf, buf) if x)
        w = -(-max(1, nbytes) // step) + 1
        if self.short_reads:
            r = -(-max(1, nbytes) // max(1, sum(self.short_reads) // len(self.short_reads))) + 1
        else:
            r = -(-max(1, nbytes) // 8192) + 1
        self.expected_ops = {"F2": w, "F4": w, "F6": r}

    def fault_for(self, path, kind, k):
        e = self.epoch.get(kind, 0)
        hit = None
        for f in self._faults:
            if f.kind == kind and f.fired < f.n and f.matches(path):
                if f.frac is not None:
                    if e >= int(f.frac * max(1, self.expected_ops.get(kind, 1))):
                        hit = f
                        break
                elif k >= f.at:
                    hit = f
                    break
        self.epoch[kind] = e + 1
        return hit

    def fire(self, f):
        f.fired += 1
        self.fired[f.kind] = self.fired.get(f.kind, 0) + 1

    def inflight(self, path, nbytes):
        self.inflight_points.append((path, nbytes))

    def is_sim(self, p):
        try:
            p = os.fspath(p)
        except TypeError:
            return False
        if isinstance(p, bytes):
            p = p.decode("utf-8", "replace")
        return isinstance(p, str) and p.startswith(PREFIX)

    # --- the open() the library sees
    def open(self, file, mode="r", buffering=-1, encoding=None, errors=None, newline=None, closefd=True, opener=None):
        if not self.is_sim(file):
            return self._saved["open"](file, mode, buffering, encoding, errors, newline, closefd, opener)
        path = os.fspath(file)
        binary = "b" in mode
        m = mode.replace("b", "").replace("t", "")
        reading = m.startswith("r")
        if reading:
            k = self.bump(path, "open-r")
            f = self.fault_for(path, "F5", k)
            if f is not None:
                self.fire(f)
                raise OSError(f.errno, "simfs: injected open error", path)
            if path not in self.files:
                raise FileNotFoundError(_errno.ENOENT, "No such file or directory", path)
        else:
            k = self.bump(path, "open-w")
            f = self.fault_for(path, "F1", k)
            if f is not None:
                self.fire(f)
                raise OSError(f.errno, "simfs: injected open error", path)
        raw = SimRaw(self, path, m)
        self.opened.append(raw)
        if buffering == 0:
            if not binary:
                raise ValueError("can't have unbuffered text I/O")
            return raw
        bufsize = buffering if buffering > 1 else io.DEFAULT_BUFFER_SIZE
        if "+" in m:
            buf = io.BufferedRandom(raw, bufsize)
        elif reading:
            buf = io.BufferedReader(raw, bufsize)
        else:
            buf = io.BufferedWriter(raw, bufsize)
        if binary:
            return buf
        txt = io.TextIOWrapper(buf, encoding or "utf-8", errors, newline, line_buffering=(buffering == 1))
        txt.mode = mode
        return txt

    # --- convenience for the harness (never counted, never faulted)
    def put(self, path, data):
        self.files[path] = bytearray(data)

    def get(self, path):
        d = self.files.get(path)
        return None if d is None else bytes(d)

    # --- install / uninstall
    def install(self):
        import numpy.lib._datasource as DS
        from lxml import etree

        assert self._saved is None
        self._saved = {
            "open": builtins.open,
            "io_open": io.open,
            "exists": os.path.exists,
            "isfile": os.path.isfile,
            "etree_parse": etree.parse,
        }
        for name in ("replace", "rename", "remove", "unlink", "makedirs", "mkdir"):
            self._saved["os_" + name] = getattr(os, name)
        os.replace = self._replace
        os.rename = self._replace
        os.remove = self._remove
        os.unlink = self._remove
        os.makedirs = self._makedirs
        os.mkdir = self._makedirs
        builtins.open = self.open
        io.open = self.open
        os.path.exists = self._exists
        os.path.isfile = self._isfile
        etree.parse = self._etree_parse
        DS._file_openers._load()
        self._saved["ds_open"] = DS._file_openers._file_openers.get(None)
        DS._file_openers._file_openers[None] = self.open
        import tempfile
        import urllib.request

        self._saved["ntf"] = tempfile.NamedTemporaryFile
        self._saved["urlopen"] = urllib.request.urlopen
        tempfile.NamedTemporaryFile = self._named_temporary_file
        urllib.request.urlopen = self._urlopen
        return self

    def uninstall(self):
        import numpy.lib._datasource as DS
        from lxml import etree
        import tempfile
        import urllib.request

        s = self._saved
        if s is None:
            return
        for name in ("replace", "rename", "remove", "unlink", "makedirs", "mkdir"):
            setattr(os, name, s["os_" + name])
        builtins.open = s["open"]
        io.open = s["io_open"]
        os.path.exists = s["exists"]
        os.path.isfile = s["isfile"]
        etree.parse = s["etree_parse"]
        DS._file_openers._file_openers[None] = s["ds_open"]
        tempfile.NamedTemporaryFile = s["ntf"]
        urllib.request.urlopen = s["urlopen"]
        self._saved = None

    def __enter__(self):
        return self.install()

    def __exit__(self, *a):
        self.uninstall()

    def installed_ok(self):
        return builtins.open == self.open and io.open == self.open

    def _replace(self, src, dst, *a, **kw):
        if self.is_sim(src) or self.is_sim(dst):
            src, dst = os.fspath(src), os.fspath(dst)
            k = self.bump(dst, "rename")
            f = self.fault_for(dst, "F3", k) if False else None
            if src not in self.files:
                raise FileNotFoundError(_errno.ENOENT, "No such file or directory", src)
            self.files[dst] = self.files.pop(src)  # atomic replacement
            return None
        return self._saved["os_replace"](src, dst, *a, **kw)

    def _remove(self, p, *a, **kw):
        if self.is_sim(p):
            p = os.fspath(p)
            if p not in self.files:
                raise FileNotFoundError(_errno.ENOENT, "No such file or directory", p)
            del self.files[p]
            return None
        return self._saved["os_remove"](p, *a, **kw)

    def _makedirs(self, p, *a, **kw):
        if self.is_sim(p):
            return None
        return self._saved["os_makedirs"](p, *a, **kw)

    def _exists(self, p):
        if self.is_sim(p):
            p = os.fspath(p)
            return p in self.files or any(k.startswith(p.rstrip("/") + "/") for k in self.files)
        return self._saved["exists"](p)

    def _isfile(self, p):
        if self.is_sim(p):
            return os.fspath(p) in self.files
        return self._saved["isfile"](p)

    def _etree_parse(self, source, parser=None, **kw):
        if self.is_sim(source):
            with self.open(os.fspath(source), "rb") as f:
                return self._saved["etree_parse"](f, parser, **kw)
        return self._saved["etree_parse"](source, parser, **kw)

    # --- tempfile / network peer
    def _named_temporary_file(self, mode="w+b", buffering=-1, encoding=None, newline=None, suffix=None, prefix=None, dir=None, delete=True, **kw):
        self.tmp_counter += 1
        name = "%stmp/tmp%04d%s" % (PREFIX, self.tmp_counter, suffix or "")
        f = self.open(name, mode if "w" in mode or "a" in mode else "w+b", buffering, encoding, None, newline)
        fs = self

        class _Wrapper(object):
            def __init__(self):
                self.name = name
                self.file = f

            def __getattr__(self, a):
                return getattr(f, a)

            def __enter__(self):
                return self

            def __exit__(self, *a):
                self.close()

            def close(self):
                try:
                    f.close()
                finally:
                    if delete:
                        fs.files.pop(name, None)

        return _Wrapper()

    def serve(self, url, data):
        self.urls[url] = bytes(data)

    def _urlopen(self, url, *a, **kw):
        import urllib.error

        u = url if isinstance(url, str) else getattr(url, "full_url", str(url))
        k = self.bump(u, "urlopen")
        f = self.fault_for(u, "F9", k)
        if f is not None:
            self.fire(f)
            if f.errno == 404:
                raise urllib.error.HTTPError(u, 404, "Not Found", {}, None)
            if f.errno == -1:  # body cut short by the peer
                data = self.urls.get(u, b"")
                return _Resp(data[: max(0, len(data) // 2)])
            raise urllib.error.URLError("simfs: injected network error")
        if u not in self.urls:
            raise urllib.error.URLError("simfs: no such host/resource %s" % u)
        r = _Resp(self.urls[u])
        r.limits, r.fs = self.url_short_reads, self
        return r


class _Resp(io.BytesIO):
    """Response body.  read() without a size returns everything up to EOF; read(n) may return fewer than n
    bytes before EOF when the simulation asks for short reads (legal for a stream: only b"" means EOF)."""

    status = 200
    limits = None
    nreads = 0
    fs = None

    def read(self, n=-1):
        if n is None or n < 0 or not self.limits:
            return io.BytesIO.read(self, n)
        lim = self.limits[self.nreads % len(self.limits)]
        self.nreads += 1
        if lim < n:
            n = lim
            if self.fs is not None:
                self.fs.fired["F7"] = self.fs.fired.get("F7", 0) + 1
        return io.BytesIO.read(self, n)

    read1 = read

    def __enter__(self):
        return self

    def __exit__(self, *a):
        self.close()
