"""Shrinking.  A case is a JSON-able dict of *decisions* (workload, programs,
schedule, faults, order).  `still_fails(case)` re-executes and says whether the
same violation class persists.  ddmin over lists, then element simplification
supplied by the check."""
import copy


def ddmin_list(lst, test, max_tests=400):
    """Classic ddmin: return a (locally) minimal sublist for which test() holds.
    test(sublist) -> bool.  Assumes test(lst) is True."""
    n = 2
    budget = [max_tests]

    def t(x):
        if budget[0] <= 0:
            return False
        budget[0] -= 1
        return test(x)

    cur = list(lst)
    if cur and t([]):
        return []
    while len(cur) >= 2:
        chunk = max(1, len(cur) // n)
        subsets = [cur[i : i + chunk] for i in range(0, len(cur), chunk)]
        reduced = False
        # try complements first (removing one chunk)
        for i in range(len(subsets)):
            comp = [e for j, s in enumerate(subsets) if j != i for e in s]
            if t(comp):
                cur = comp
                n = max(n - 1, 2)
                reduced = True
                break
        if not reduced:
            if chunk == 1:
                break
            n = min(len(cur), n * 2)
        if budget[0] <= 0:
            break
    if len(cur) == 1 and t([]):
        return []
    return cur


def get_path(case, path):
    x = case
    for p in path:
        x = x[p]
    return x


def set_path(case, path, value):
    x = case
    for p in path[:-1]:
        x = x[p]
    x[path[-1]] = value


def shrink_case(case, still_fails, list_paths, simplifiers=(), max_tests=600):
    """list_paths: iterable of paths (tuples) to lists inside the case that may
    be ddmin-ed, in priority order (faults first, then ops, then schedule, then
    workload pieces).  simplifiers: callables case -> iterable of candidate
    smaller cases (workload reduction).  Every candidate is accepted only if
    still_fails(candidate)."""
    best = copy.deepcopy(case)
    tests = [0]

    def ok(c):
        if tests[0] >= max_tests:
            return False
        tests[0] += 1
        try:
            return bool(still_fails(c))
        except Exception:
            return False

    changed = True
    rounds = 0
    while changed and rounds < 4 and tests[0] < max_tests:
        changed = False
        rounds += 1
        for path in list_paths(best) if callable(list_paths) else list_paths:
            try:
                lst = get_path(best, path)
            except (KeyError, IndexError, TypeError):
                continue
            if not isinstance(lst, list) or not lst:
                continue

            def test(sub, path=path):
                c = copy.deepcopy(best)
                set_path(c, path, list(sub))
                return ok(c)

            new = ddmin_list(lst, test, max_tests=max(20, (max_tests - tests[0]) // 2))
            if len(new) < len(lst):
                set_path(best, path, new)
                changed = True
        for simp in simplifiers:
            progress = True
            while progress and tests[0] < max_tests:
                progress = False
                for cand in simp(best):
                    if ok(cand):
                        best = cand
                        progress = True
                        changed = True
                        break
    return best, tests[0]
